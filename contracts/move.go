//go:build verif

package move

// Comment-only contract file for the deductive verifier in /verif (see /verif/DESIGN.md).
// It contains no code; with the build tag off the file is not even compiled.
//
// Ghost state for property C01: gm is an arbitrary, fixed move encoding; cnt counts how many times
// Alloc has been called with exactly gm.  The contract of Alloc is the definition of that counter.
//
//@ ghost gm Move
//@ ghost cnt int
//@
//@ func (*Store).Alloc
//@   trusted ghost definition: cnt counts the calls Alloc(gm); the stored element and the bounds of the store are not part of property C01
//@   ensures cnt == old(cnt) + b2i(m == gm)
//@   modifies cnt, s.allocIx, s.data.*
//@
//@ # for the picker (C16) Alloc is executed in place: it stores {m, 0} at data[allocIx] and advances
//@ func (*Store).Alloc view picker
//@   inline
