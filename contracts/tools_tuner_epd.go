//go:build verif

package epd

// Comment-only contract file for the deductive verifier in /verif (see /verif/DESIGN.md).
// It contains no code; with the build tag off the file is not even compiled.
//
// Property C20: the epoch shuffle.  The round function is uninterpreted (rf), so everything proved
// about the Feistel network holds for any round function.
//
//@ import shuffle.smt2
//@
//@ func roundFunc
//@   abstract
//@   trusted definition: rf names the function computed by roundFunc (deterministic, no state)
//@   ensures result == rf(x, k)
//@   modifies nothing
//@
//@ define lowMask(bits) = ite(bits >= 64, uint64(0xffffffffffffffff), (uint64(1) << uint64(bits)) - 1)
//@
//@ func feistel
//@   props C20
//@   requires 1 <= bits && bits <= 64
//@   ensures [range] result & ^lowMask(bits) == 0
//@   modifies nothing
//@   nopanic
//@   loop 1: unroll 4
//@
//@ # injective on [0, 2^bits): two inputs with equal images are equal (two-copy obligation over the real body)
//@ lemma feistelInjective(x uint64, y uint64, seed uint64, bits int)
//@   props C20
//@   split bits in 1..64
//@   hyp 1 <= bits && bits <= 64 && x & ^lowMask(bits) == 0 && y & ^lowMask(bits) == 0
//@   hyp body(feistel(x, seed, bits)) == body(feistel(y, seed, bits))
//@   concl x == y
//@
//@ func shuffleIndex
//@   props C20
//@   ensures [range] implies(n > 1, result < n) && implies(n <= 1, result == 0)
//@   modifies nothing
//@   nopanic
//@   loop 1: invariant n > 1 && bitsNeeded == len64(n-1) && 1 <= bitsNeeded && bitsNeeded <= 64 && mask == lowMask(bitsNeeded)
//@
//@ # ---- the line manifest.  fpos is the ghost position of the buffered reader in the physical file.
//@ # ---- The contract of bufio's ReadSlice is its documented behaviour (assumed): on success it returns
//@ # ---- the bytes up to and including the delimiter and advances by exactly that many bytes.
//@ ghost fpos int64
//@
//@ extern (*bufio.Reader).ReadSlice
//@   ensures implies(result1 == nil, len(result0) >= 1 && fpos == old(fpos) + int64(len(result0)))
//@   ensures fpos >= old(fpos)
//@   modifies fpos
//@
//@ func OpenByLines
//@   trusted opening a file positions the reader at offset 0 (os.Open / bufio.NewReader are not verified)
//@   ensures implies(result1 == nil, fpos == 0 && result0 != nil && result0.pos == 0)
//@   modifies fpos
//@
//@ func (*ByLines).Close
//@   trusted closes the file (not modelled)
//@   modifies nothing
//@
//@ func (*ByLines).Read
//@   props C20
//@   requires fpos >= 0 && b.pos == fpos
//@   ensures [tracks] implies(result1 == nil, b.pos == fpos)
//@   ensures [line] implies(result1 == nil, len(result0) >= 1 && fpos - int64(len(result0)) - 1 >= old(fpos))
//@   ensures [pos]  fpos >= old(fpos)
//@   modifies fpos, b.pos
//@   loop 1: invariant fpos >= pre(fpos) && b.pos == fpos
//@   loop 1: modifies fpos, b.pos
//@
//@ func (*ByLines).Pos
//@   props C20
//@   ensures result == b.pos
//@   modifies nothing
//@
//@ # every manifest entry is the physical extent of the line it was built from: it ends where the
//@ # reader stands after that line and starts exactly len(line)+1 bytes earlier, at or after the end
//@ # of everything read before
//@ func NewChunker
//@   props C20
//@   requires fpos >= 0
//@   allow-extern fmt. errors. os. io.
//@   at-call append requires end == fpos && start == end - int64(len(line)) - 1 && start >= 0
//@   loop 1: invariant fpos >= 0 && byLines.pos == fpos
//@   loop 1: modifies fpos, byLines.pos, lineManifest.*
//@
//@ # ---- Chunk.Read: the buffered window over the file.  gf is an arbitrary, fixed file offset;
//@ # ---- fileByte / fileLen are the ghost file.  Assumed (documented io.ReaderAt behaviour, I/O errors
//@ # ---- other than end-of-file not modelled): ReadAt transfers min(len(b), fileLen-off) bytes of the
//@ # ---- file starting at off into the front of b.
//@ ghost gf int64
//@ define winOK(c) = 0 <= c.mapStart && c.mapStart <= c.mapEnd && c.mapEnd - c.mapStart <= int64(len(c.mapBytes)) && implies(c.mapStart <= gf && gf < c.mapEnd, c.mapBytes[gf - c.mapStart] == fileByte(uint64(gf)))
//@ define lineOK(a, n) = 0 <= a.start && a.start < a.end && a.end <= int64(fileLen()) && a.end - a.start <= int64(n)
//@ define curLine(c) = c.chunkLines[c.chunkLinesIx]
//@ define hasLine(c) = 0 <= c.chunkLinesIx && c.chunkLinesIx < len(c.chunkLines)
//@
//@ extern (*os.File).ReadAt
//@   requires off >= 0
//@   ensures 0 <= result0 && int64(result0) == min(int64(len(b)), max(int64(0), int64(fileLen()) - off))
//@   ensures implies(off <= gf && gf < off + int64(result0), b[gf - off] == fileByte(uint64(gf)))
//@   modifies b.*
//@
//@ func (*Chunk).Read
//@   props C20
//@   allow-extern io. errors.
//@   requires winOK(c) && 0 <= int64(fileLen())
//@   requires implies(hasLine(c), lineOK(curLine(c), len(c.mapBytes)))
//@   # (after a failed ReadAt the buffer has been overwritten while mapStart/mapEnd still describe the old
//@   #  window, so the window invariant is only promised on success; a caller must not go on after an error)
//@   ensures [window]  implies(result1 == nil, winOK(c))
//@   ensures [extent]  implies(old(hasLine(c)) && result1 == nil, int64(len(result0)) == old(curLine(c).end - curLine(c).start) - 1)
//@   ensures [content] implies(old(hasLine(c)) && result1 == nil && old(curLine(c).start) <= gf && gf < old(curLine(c).end) - 1, result0[gf - old(curLine(c).start)] == fileByte(uint64(gf)))
//@   ensures [advance] implies(old(hasLine(c)) && result1 == nil, c.chunkLinesIx == old(c.chunkLinesIx) + 1)
//@   ensures [eof]     implies(!old(hasLine(c)), len(result0) == 0 && c.chunkLinesIx == old(c.chunkLinesIx))
//@   modifies c.chunkLinesIx, c.mapStart, c.mapEnd, c.mapBytes.*
//@   nopanic
//@
//@ # ---- Chunker.Open: the window [start, end) of the epoch's shuffled order is collected as
//@ # ---- manifest[si(start)], manifest[si(start+1)], ... (before sorting by file position).
//@ func shuffleIndex view named
//@   trusted definition: si names the value computed by shuffleIndex, a pure function of its arguments (no memory is read or written: frame and range proved in the main contract)
//@   ensures result == si(x, n, seed) && implies(n > 1, result < n) && implies(n <= 1, result == 0)
//@   modifies nothing
//@
//@ func (Chunker).Open
//@   props C20
//@   # every non-empty sub-range of the shuffled order can be opened: the range check rejects only others
//@   at-return 1 requires [accepts] !(0 <= start && start < end && end <= len(c.lineManifest))
//@   views named
//@   allow-extern os. errors. slices.
//@   at-call SortFunc requires [collected] len(chunkLines) == end - start && implies(0 <= gi && gi < end - start, chunkLines[gi] == c.lineManifest[si(uint64(start + gi), uint64(len(c.lineManifest)), uint64(epoch))])
//@   nopanic
//@   loop 1: invariant start <= ix && ix <= end && 0 <= start && end <= len(c.lineManifest) && len(chunkLines) == ix - start && implies(0 <= gi && gi < ix - start, chunkLines[gi] == c.lineManifest[si(uint64(start + gi), uint64(len(c.lineManifest)), uint64(epoch))])
//@   loop 1: modifies chunkLines.*
//@
//@ # ---- cycle walking: shuffleIndex returns the FIRST iterate of the Feistel map (starting from x) that
//@ # ---- falls below n.  Together with injectivity of the Feistel map on [0, 2^bits) (lemma
//@ # ---- feistelInjective) this is the hypothesis of the Lean theorem firstReturn_inj
//@ # ---- (/verif/spec/lean/Walk.lean): the first-return map of an injective map to a set is injective
//@ # ---- on that set, i.e. shuffleIndex(., n, seed) is a permutation of [0, n).
//@ axiom fiterZero(x uint64, seed uint64, bits int)
//@   concl fiter(0, x, seed, uint64(bits)) == x
//@ axiom fiterSucc(j int, x uint64, seed uint64, bits int)
//@   hyp j >= 0
//@   concl fiter(uint64(j + 1), x, seed, uint64(bits)) == fst(fiter(uint64(j), x, seed, uint64(bits)), seed, uint64(bits))
//@
//@ func feistel view walk
//@   trusted definition: fst names the value computed by feistel, a pure function of its arguments (frame and range proved in the main contract)
//@   requires 1 <= bits && bits <= 64
//@   ensures result == fst(x, seed, uint64(bits)) && result & ^lowMask(bits) == 0
//@   modifies nothing
//@
//@ func shuffleIndex view walk
//@   props C20
//@   views walk
//@   requires x < n
//@   ensures [firstReturn] implies(n > 1, result == fiter(uint64(count(1) + 1), old(x), seed, uint64(len64(n-1))) && result < n && forall(j, 1, count(1) + 1, fiter(uint64(j), old(x), seed, uint64(len64(n-1))) >= n))
//@   modifies nothing
//@   use fiterZero(x, seed, bitsNeeded) at loop1
//@   use fiterSucc(count(1), old(x), seed, bitsNeeded) at loop1
//@   loop 1: invariant n > 1 && bitsNeeded == len64(n-1) && 1 <= bitsNeeded && bitsNeeded <= 64 && mask == lowMask(bitsNeeded)
//@   loop 1: invariant x & ^mask == 0 && x == fiter(uint64(count(1)), old(x), seed, uint64(bitsNeeded)) && forall(j, 1, count(1) + 1, fiter(uint64(j), old(x), seed, uint64(bitsNeeded)) >= n)
