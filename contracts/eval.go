//go:build verif

package eval

// Comment-only contract file for the deductive verifier in /verif (see /verif/DESIGN.md).
// It contains no code; with the build tag off the file is not even compiled.
//
//@ func Eval[chess.Score] view search
//@   trusted read-only (checked mechanically: no stores to non-local memory in its call tree)
//@   modifies nothing
//@
//@ # ---- C17 (position-only clause): the evaluation's whole call tree reads nothing of the board but
//@ # ---- piece sets, colour sets, side to move and the halfmove clock, and writes nothing outside its
//@ # ---- own frame: it cannot depend on castling rights, e.p. state, move number, hash history or on
//@ # ---- earlier evaluations.  Checked mechanically on the SSA of every function reachable from Eval.
//@ func Eval[chess.Score]
//@   props C17
//@   reads-only b: Pieces Colors STM FiftyCnt
//@   no-writes
//@
//@ # ---- C17 (colour symmetry), helper level: every loop-free helper computes for a position what it
//@ # ---- computes for the mirror image (ranks flipped, colours and side to move exchanged)
//@ import geom.smt2 rules.smt2
//@ define mirrored(b1, b2) = all(i, 0, 6, b2.Pieces[i] == mirrorBB(b1.Pieces[i])) && b2.Colors[0] == mirrorBB(b1.Colors[1]) && b2.Colors[1] == mirrorBB(b1.Colors[0]) && b2.STM == b1.STM ^ 1 && b2.FiftyCnt == b1.FiftyCnt && b1.STM <= 1
//@
//@ lemma knbvkSymmetric(b1 *Board, b2 *Board)
//@   props C17
//@   hyp mirrored(b1, b2)
//@   concl body(KNBvK(b1)) == body(KNBvK(b2))
//@
//@ lemma frontFillSymmetric(x BitBoard, c Color)
//@   props C17
//@   hyp c <= 1
//@   concl body(frontFill(mirrorBB(x), c ^ 1)) == mirrorBB(body(frontFill(x, c)))
//@
//@ lemma chebishevSymmetric(a Square, b Square)
//@   props C17
//@   hyp 0 <= a && a < 64 && 0 <= b && b < 64
//@   concl body(Chebishev(a ^ 56, b ^ 56)) == body(Chebishev(a, b))
//@
//@ lemma pawnAttacksSymmetric(x BitBoard, c Color)
//@   props C17
//@   hyp c <= 1
//@   concl body(attacks.PawnCaptureMoves(mirrorBB(x), c ^ 1)) == mirrorBB(body(attacks.PawnCaptureMoves(x, c)))
//@   concl body(attacks.PawnSinglePushMoves(mirrorBB(x), c ^ 1)) == mirrorBB(body(attacks.PawnSinglePushMoves(x, c)))
//@
//@ lemma slidersSymmetric(s Square, occ BitBoard)
//@   props C17
//@   hyp 0 <= s && s < 64
//@   concl rookWalk(uint8(s ^ 56), mirrorBB(occ)) == mirrorBB(rookWalk(uint8(s), occ))
//@   concl bishopWalk(uint8(s ^ 56), mirrorBB(occ)) == mirrorBB(bishopWalk(uint8(s), occ))
//@   concl kingSet(sqbit(uint8(s ^ 56))) == mirrorBB(kingSet(sqbit(uint8(s))))
//@   concl knightSet(sqbit(uint8(s ^ 56))) == mirrorBB(knightSet(sqbit(uint8(s))))
//@
//@ # ---- C17 (colour symmetry), structure level: the pawn-structure sets computed for the mirror image
//@ # ---- are the mirror images of the sets computed for the original, colours exchanged (both real
//@ # ---- bodies executed; the two-iteration colour loop is unrolled)
//@ func (*pieceWise).calcPawnStructure
//@   loop 1: unroll 2
//@
//@ scenario pawnStructureMirror(b1 *Board, b2 *Board, pw1 *pieceWise, pw2 *pieceWise)
//@   props C17
//@   requires mirrored(b1, b2)
//@   do inline pw1.calcPawnStructure(b1)
//@   do inline pw2.calcPawnStructure(b2)
//@   ensures [holes]    all(c, 0, 1, pw2.holes[c] == mirrorBB(pw1.holes[c^1]))
//@   ensures [passers]  all(c, 0, 1, pw2.passers[c] == mirrorBB(pw1.passers[c^1]))
//@   ensures [doubled]  all(c, 0, 1, pw2.doubledPawns[c] == mirrorBB(pw1.doubledPawns[c^1]))
//@   ensures [isolated] all(c, 0, 1, pw2.isolatedPawns[c] == mirrorBB(pw1.isolatedPawns[c^1]))
//@   ensures [attacks]  all(c, 0, 1, pw2.attacks[c][0] == mirrorBB(pw1.attacks[c^1][0]))
//@
//@ # ---- C17 (colour symmetry), cover / occupancy stage: the union of a colour's attack sets and the
//@ # ---- occupancy computed for the mirror image are the mirror images of the original's
//@ func (*pieceWise).calcCover
//@   loop 1: unroll 2
//@
//@ scenario coverMirror(pw1 *pieceWise, pw2 *pieceWise)
//@   props C17
//@   requires all(c, 0, 1, all(k, 0, 5, pw2.attacks[c][k] == mirrorBB(pw1.attacks[c^1][k])))
//@   do inline pw1.calcCover()
//@   do inline pw2.calcCover()
//@   ensures [cover] all(c, 0, 1, pw2.cover[c] == mirrorBB(pw1.cover[c^1]))
//@
//@ scenario occupancyMirror(b1 *Board, b2 *Board, pw1 *pieceWise, pw2 *pieceWise)
//@   props C17
//@   requires mirrored(b1, b2)
//@   do inline pw1.calcOccupancy(b1)
//@   do inline pw2.calcOccupancy(b2)
//@   ensures [occ] pw2.occ == mirrorBB(pw1.occ)
//@
//@ # ---- C17 (colour symmetry), king stage: king squares, king attack sets, king rays and king
//@ # ---- neighbourhoods computed for the mirror image are the mirror images of the original's, colours
//@ # ---- exchanged (real body executed twice, callees by their C12 contracts, each side has one king)
//@ func (*pieceWise).calcKingSquares
//@   loop 1: unroll 2
//@
//@ scenario kingSquaresMirror(b1 *Board, b2 *Board, pw1 *pieceWise, pw2 *pieceWise)
//@   props C17
//@   requires mirrored(b1, b2)
//@   requires pw2.occ == mirrorBB(pw1.occ)
//@   requires all(c, 0, 1, (b1.Pieces[6] & b1.Colors[c]) != 0 && ((b1.Pieces[6] & b1.Colors[c]) & ((b1.Pieces[6] & b1.Colors[c]) - 1)) == 0)
//@   use slidersSymmetric((b1.Pieces[6] & b1.Colors[0]).LowestSet(), pw1.occ)
//@   use slidersSymmetric((b1.Pieces[6] & b1.Colors[1]).LowestSet(), pw1.occ)
//@   do inline pw1.calcKingSquares(b1)
//@   do inline pw2.calcKingSquares(b2)
//@   ensures [kingSq]   all(c, 0, 1, pw2.kingSq[c] == pw1.kingSq[c^1] ^ 56)
//@   ensures [kingNb]   all(c, 0, 1, pw2.kingNb[c] == mirrorBB(pw1.kingNb[c^1]))
//@   ensures [kingAtt]  all(c, 0, 1, pw2.attacks[c][5] == mirrorBB(pw1.attacks[c^1][5]))
//@   ensures [kingRays] all(c, 0, 1, all(k, 0, 1, pw2.kingRays[c][k] == mirrorBB(pw1.kingRays[c^1][k])))
//@
//@ # ---- C17 (colour symmetry), per-piece attack stage: one call of each calc*Attacks helper for a piece
//@ # ---- of colour c on sq, and for the mirror image's piece of colour c^1 on sq^56, returns mirrored
//@ # ---- attack sets and keeps the accumulated per-piece attack tables mirrored (real bodies, C12 callees)
//@ scenario pieceAttacksMirror(pw1 *pieceWise, pw2 *pieceWise, c Color, sq Square)
//@   props C17
//@   requires c <= 1 && 0 <= sq && sq < 64
//@   requires pw2.occ == mirrorBB(pw1.occ)
//@   requires all(d, 0, 1, all(k, 0, 5, pw2.attacks[d][k] == mirrorBB(pw1.attacks[d^1][k])))
//@   use slidersSymmetric(sq, pw1.occ)
//@   do q1 := inline pw1.calcQueenAttacks(c, sq)
//@   do q2 := inline pw2.calcQueenAttacks(c ^ 1, sq ^ 56)
//@   do r1 := inline pw1.calcRookAttacks(c, sq)
//@   do r2 := inline pw2.calcRookAttacks(c ^ 1, sq ^ 56)
//@   do b1 := inline pw1.calcBishopAttacks(c, sq)
//@   do b2 := inline pw2.calcBishopAttacks(c ^ 1, sq ^ 56)
//@   do n1 := inline pw1.calcKnightAttacks(c, sq)
//@   do n2 := inline pw2.calcKnightAttacks(c ^ 1, sq ^ 56)
//@   ensures [queen]  q2 == mirrorBB(q1)
//@   ensures [rook]   r2 == mirrorBB(r1)
//@   ensures [bishop] b2 == mirrorBB(b1)
//@   ensures [knight] n2 == mirrorBB(n1)
//@   ensures [tables] all(d, 0, 1, all(k, 0, 5, pw2.attacks[d][k] == mirrorBB(pw1.attacks[d^1][k])))
//@
//@ # ---- C17 (colour symmetry), scoring helpers: piece-square, tempo and endgame-score steps give the
//@ # ---- mirror image's colour-exchanged accumulators the same increments / the same final score
//@ scenario psqtMirror(sp1 *scorePair[chess.Score], sp2 *scorePair[chess.Score], cf *CoeffSet[chess.Score], c Color, p Piece, sq Square)
//@   props C17
//@   requires c <= 1 && 0 <= sq && sq < 64 && 1 <= p && p <= 6
//@   requires all(d, 0, 1, sp2.mg[d] == sp1.mg[d^1] && sp2.eg[d] == sp1.eg[d^1])
//@   do inline sp1.addPSqT(c, p, sq, cf)
//@   do inline sp2.addPSqT(c ^ 1, p, sq ^ 56, cf)
//@   ensures [acc] all(d, 0, 1, sp2.mg[d] == sp1.mg[d^1] && sp2.eg[d] == sp1.eg[d^1])
//@
//@ scenario tempoEndgameMirror(b1 *Board, b2 *Board, sp1 *scorePair[chess.Score], sp2 *scorePair[chess.Score], cf *CoeffSet[chess.Score])
//@   props C17
//@   requires mirrored(b1, b2)
//@   requires sp2.phase == sp1.phase
//@   requires all(d, 0, 1, sp2.mg[d] == sp1.mg[d^1] && sp2.eg[d] == sp1.eg[d^1])
//@   do inline sp1.addTempo(b1, cf)
//@   do inline sp2.addTempo(b2, cf)
//@   do e1 := inline sp1.endgameScore(b1)
//@   do e2 := inline sp2.endgameScore(b2)
//@   ensures [acc]     all(d, 0, 1, sp2.mg[d] == sp1.mg[d^1] && sp2.eg[d] == sp1.eg[d^1])
//@   ensures [endgame] e2 == e1
//@
