//go:build verif

package attacks

// Comment-only contract file for the deductive verifier in /verif (see /verif/DESIGN.md).
// It contains no code; with the build tag off the file is not even compiled.
//
//@ import geom.smt2
//@
//@ define onBoard(sq) = 0 <= sq && sq < 64
//@
//@ func calcRookAttacks
//@   props C12
//@   requires onBoard(sq)
//@   ensures [walk] result == rookWalk(uint8(sq), occ)
//@   modifies nothing
//@   nopanic
//@   loop 1: unroll 7
//@   loop 2: unroll 7
//@   loop 3: unroll 7
//@   loop 4: unroll 7
//@
//@ func calcBishopAttacks
//@   props C12
//@   requires onBoard(sq)
//@   ensures [walk] result == bishopWalk(uint8(sq), occ)
//@   modifies nothing
//@   nopanic
//@   loop 1: unroll 7
//@   loop 2: unroll 7
//@   loop 3: unroll 7
//@   loop 4: unroll 7
//@
//@ # ---- leapers and pawns: the tables / shift formulas equal the set-wise geometric definitions,
//@ # ---- and the set-wise definitions equal the coordinate definitions (linking lemmas)
//@ func KingMoves
//@   props C12
//@   requires onBoard(from)
//@   ensures [geom] result == kingSet(sqbit(uint8(from)))
//@   modifies nothing
//@   nopanic
//@
//@ func KnightMoves
//@   props C12
//@   requires onBoard(from)
//@   ensures [geom] result == knightSet(sqbit(uint8(from)))
//@   modifies nothing
//@   nopanic
//@
//@ func PawnCaptureMoves
//@   props C12
//@   requires color <= 1
//@   ensures [geom] result == pawnAttSet(uint8(color), b)
//@   modifies nothing
//@   nopanic
//@
//@ func PawnSinglePushMoves
//@   props C12
//@   requires color <= 1
//@   ensures [geom] result == pawnPushSet(uint8(color), b)
//@   modifies nothing
//@   nopanic
//@
//@ lemma kingSetIsKingAtt(s Square, t Square)
//@   props C12
//@   hyp onBoard(s) && onBoard(t)
//@   concl has(kingSet(sqbit(uint8(s))), uint8(t)) == kingAtt(uint8(s), uint8(t))
//@
//@ lemma knightSetIsKnightAtt(s Square, t Square)
//@   props C12
//@   hyp onBoard(s) && onBoard(t)
//@   concl has(knightSet(sqbit(uint8(s))), uint8(t)) == knightAtt(uint8(s), uint8(t))
//@
//@ lemma pawnAttSetIsPawnAtt(c Color, s Square, t Square)
//@   props C12
//@   hyp c <= 1 && onBoard(s) && onBoard(t)
//@   concl has(pawnAttSet(uint8(c), sqbit(uint8(s))), uint8(t)) == pawnAtt(uint8(c), uint8(s), uint8(t))
//@
//@ lemma pawnPushSetIsPawnPush(c Color, s Square, t Square)
//@   props C12
//@   hyp c <= 1 && onBoard(s) && onBoard(t)
//@   concl has(pawnPushSet(uint8(c), sqbit(uint8(s))), uint8(t)) == pawnPush1(uint8(c), uint8(s), uint8(t))
//@
//@ lemma pawnSetsAdditive(c Color, a BitBoard, b BitBoard)
//@   props C12
//@   hyp c <= 1
//@   concl pawnAttSet(uint8(c), a|b) == pawnAttSet(uint8(c), a) | pawnAttSet(uint8(c), b)
//@   concl pawnPushSet(uint8(c), a|b) == pawnPushSet(uint8(c), a) | pawnPushSet(uint8(c), b)
//@
//@ lemma rookSetIsRookWalk(s Square, occ BitBoard)
//@   props C12
//@   hyp onBoard(s)
//@   concl rookSet(sqbit(uint8(s)), occ) == rookWalk(uint8(s), occ)
//@
//@ lemma bishopSetIsBishopWalk(s Square, occ BitBoard)
//@   props C12
//@   hyp onBoard(s)
//@   concl bishopSet(sqbit(uint8(s)), occ) == bishopWalk(uint8(s), occ)
//@
//@ # ---- magic tables
//@ define rookIdx(s, o) = ((o & rookMasks[s]) * rookMagics[s]) >> (64 - rookShifts[s])
//@ define bishopIdx(s, o) = ((o & bishopMasks[s]) * bishopMagics[s]) >> (64 - bishopShifts[s])
//@ define rookFilledAt(s, o) = rookAttacks[s][rookIdx(s, o)] == rookWalk(uint8(s), o & rookMasks[s])
//@ define bishopFilledAt(s, o) = bishopAttacks[s][bishopIdx(s, o)] == bishopWalk(uint8(s), o & bishopMasks[s])
//@
//@ writers rookAttacks: initRookMagic
//@ writers bishopAttacks: initBishopMagic
//@ writers InBetween: initInBetween
//@
//@ lemma rookMaskIrrelevant(s Square, o BitBoard)
//@   props C12
//@   split s in 0..63
//@   hyp onBoard(s)
//@   concl rookWalk(uint8(s), o) == rookWalk(uint8(s), o & rookMasks[s])
//@
//@ lemma bishopMaskIrrelevant(s Square, o BitBoard)
//@   props C12
//@   split s in 0..63
//@   hyp onBoard(s)
//@   concl bishopWalk(uint8(s), o) == bishopWalk(uint8(s), o & bishopMasks[s])
//@
//@ lemma rookNoCollide(s Square, a BitBoard, b BitBoard)
//@   props C12
//@   split s in 0..63
//@   hyp onBoard(s) && rookIdx(s, a) == rookIdx(s, b)
//@   concl rookWalk(uint8(s), a & rookMasks[s]) == rookWalk(uint8(s), b & rookMasks[s])
//@
//@ lemma bishopNoCollide(s Square, a BitBoard, b BitBoard)
//@   props C12
//@   split s in 0..63
//@   hyp onBoard(s) && bishopIdx(s, a) == bishopIdx(s, b)
//@   concl bishopWalk(uint8(s), a & bishopMasks[s]) == bishopWalk(uint8(s), b & bishopMasks[s])
//@
//@ fact rookFilled(s Square, o BitBoard)
//@   props C12
//@   hyp onBoard(s)
//@   concl rookFilledAt(s, o)
//@
//@ fact bishopFilled(s Square, o BitBoard)
//@   props C12
//@   hyp onBoard(s)
//@   concl bishopFilledAt(s, o)
//@
//@ func initRookMagic
//@   props C12
//@   establishes rookFilled
//@   split s in 0..63
//@   nopanic
//@   use rookNoCollide(sq, occ, o) at loop2
//@   loop 1: invariant 0 <= iter(1) && iter(1) < 64
//@   loop 1: invariant implies(onBoard(s) && s < iter(1), rookFilledAt(s, o))
//@   loop 2: invariant occ & ^mask == 0 && mask == rookMasks[sq] && magic == rookMagics[sq] && shift == rookShifts[sq] && onBoard(sq)
//@   loop 2: invariant implies(onBoard(s) && s < sq, rookFilledAt(s, o))
//@   loop 2: invariant implies(s == sq && occ != mask && ((o & mask) == mask || (o & mask) < occ), rookFilledAt(s, o))
//@
//@ func initBishopMagic
//@   props C12
//@   establishes bishopFilled
//@   split s in 0..63
//@   nopanic
//@   use bishopNoCollide(sq, occ, o) at loop2
//@   loop 1: invariant 0 <= iter(1) && iter(1) < 64
//@   loop 1: invariant implies(onBoard(s) && s < iter(1), bishopFilledAt(s, o))
//@   loop 2: invariant occ & ^mask == 0 && mask == bishopMasks[sq] && magic == bishopMagics[sq] && shift == bishopShifts[sq] && onBoard(sq)
//@   loop 2: invariant implies(onBoard(s) && s < sq, bishopFilledAt(s, o))
//@   loop 2: invariant implies(s == sq && occ != mask && ((o & mask) == mask || (o & mask) < occ), bishopFilledAt(s, o))
//@
//@ func RookMoves
//@   props C12
//@   requires onBoard(from)
//@   use rookFilled(from, occ)
//@   use rookMaskIrrelevant(from, occ)
//@   ensures [walk] result == rookWalk(uint8(from), occ)
//@   modifies nothing
//@   nopanic
//@
//@ func BishopMoves
//@   props C12
//@   requires onBoard(from)
//@   use bishopFilled(from, occ)
//@   use bishopMaskIrrelevant(from, occ)
//@   ensures [walk] result == bishopWalk(uint8(from), occ)
//@   modifies nothing
//@   nopanic
//@
//@ # ---- in-between table
//@ define fileOfSq(q) = q & 7
//@ define rankOfSq(q) = q >> 3
//@ define lexLess(a1, a2, a3, a4, b1, b2, b3, b4) = a1 < b1 || (a1 == b1 && (a2 < b2 || (a2 == b2 && (a3 < b3 || (a3 == b3 && a4 < b4)))))
//@ define betweenOK(a, b) = InBetween[a][b] &^ (sqbit(uint8(a)) | sqbit(uint8(b))) == between(uint8(a), uint8(b))
//@ define visited(a, b, fa, ra, fb, rb) = lexLess(fileOfSq(a), rankOfSq(a), fileOfSq(b), rankOfSq(b), fa, ra, fb, rb)
//@
//@ fact inBetweenFilled(a Square, b Square)
//@   props C12
//@   hyp onBoard(a) && onBoard(b)
//@   concl betweenOK(a, b)
//@
//@ func initInBetween
//@   props C12
//@   establishes inBetweenFilled
//@   split a in 0..63
//@   nopanic
//@   loop 1: invariant 0 <= iter(1) && iter(1) < 8
//@   loop 1: invariant implies(visited(a, b, iter(1), 0, 0, 0), betweenOK(a, b))
//@   loop 2: invariant 0 <= iter(2) && iter(2) < 8
//@   loop 2: invariant implies(visited(a, b, iter(1), iter(2), 0, 0), betweenOK(a, b))
//@   loop 3: invariant 0 <= iter(3) && iter(3) < 8
//@   loop 3: invariant implies(visited(a, b, iter(1), iter(2), iter(3), 0), betweenOK(a, b))
//@   loop 4: invariant 0 <= iter(4) && iter(4) < 8
//@   loop 4: invariant implies(visited(a, b, iter(1), iter(2), iter(3), iter(4)), betweenOK(a, b))
//@   loop 5: unroll 7
