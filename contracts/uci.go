//go:build verif

package uci

// Comment-only contract file for the deductive verifier in /verif (see /verif/DESIGN.md).
// It contains no code; with the build tag off the file is not even compiled.
//
//@ func (timeControl).timedMode
//@   props C14
//@   requires stm <= 1
//@   ghost T = ite(stm == 0, tc.wtime, tc.btime)
//@   ensures [def] result == (T > 0 || tc.mtime > 0)
//@   nopanic
//@
//@ func (timeControl).softLimit
//@   props C14
//@   requires stm <= 1
//@   ensures [mtime] implies(tc.mtime > 0, result == tc.mtime)
//@   nopanic
//@
//@ func (timeControl).hardLimit
//@   props C14
//@   requires stm <= 1
//@   ghost T = ite(stm == 0, tc.wtime, tc.btime)
//@   ensures [mtime]    implies(tc.mtime > 0, result == tc.mtime)
//@   ensures [positive] implies(tc.mtime <= 0 && T > 0, result > 0)
//@   ensures [within]   implies(tc.mtime <= 0 && T > 0, result <= T)
//@   ensures [margin]   implies(tc.mtime <= 0 && T > 30, result <= T - 30)
//@   nopanic
//@
//@ lemma ownClockOnly(a timeControl, b timeControl, stm Color)
//@   props C14
//@   split stm in 0..1
//@   hyp stm <= 1 && a.mtime == b.mtime
//@   hyp implies(stm == 0, a.wtime == b.wtime && a.winc == b.winc)
//@   hyp implies(stm == 1, a.btime == b.btime && a.binc == b.binc)
//@   concl [hard] body(a.hardLimit(stm)) == body(b.hardLimit(stm))
//@   concl [soft] body(a.softLimit(stm)) == body(b.softLimit(stm))
//@   concl [timed] body(a.timedMode(stm)) == body(b.timedMode(stm))
//@
//@ # ---- C11 (gate): the position command replaces the current board only by one that passed the
//@ # ---- piece-count filter; a rejected FEN leaves the current board in place
//@ func (*Driver).applyMoves view uci
//@   trusted frame only: plays moves on the current board object, never re-points d.board
//@   modifies d.board.*
//@
//@ func (*Driver).handlePosition
//@   props C11
//@   views uci
//@   allow-extern fmt. strings. errors. io.
//@   at-store board requires value != nil && !body(value.InvalidPieceCount())
//@   # robustness: no argument list (any number of tokens, any contents) makes the handler index or slice
//@   # out of range
//@   nopanic
