//go:build verif

package search

// Comment-only contract file for the deductive verifier in /verif (see /verif/DESIGN.md).
// It contains no code; with the build tag off the file is not even compiled.
//
// Search-level contracts (properties C06, C08).  The board is seen through the abstraction bs(b)
// (all scalar attributes, see board/contracts_verif.go and spec/search.smt2); callees are used
// through their `search` views.  Every poll of the stop channel is a nondeterministic choice, so one
// symbolic execution covers every arrival time of the stop signal.
//
//@ import search.smt2
//@
//@ define nodesOK(o) = implies(o.Nodes >= 0 && old(o.Counters.Nodes) <= o.Nodes, o.Counters.Nodes <= o.Nodes)
//@ define storeShape(ms) = len(ms.frames)
//@
//@ func (*Search).incrementNodes
//@   props C08
//@   ensures [step]     opts.Counters.Nodes == old(opts.Counters.Nodes) || opts.Counters.Nodes == old(opts.Counters.Nodes) + 1
//@   ensures [budget]   implies(opts.Nodes >= 0 && old(opts.Counters.Nodes) <= opts.Nodes, opts.Counters.Nodes <= opts.Nodes)
//@   ensures [sticky]   implies(old(s.aborted), s.aborted)
//@   modifies opts.Counters.Nodes, s.aborted
//@   nopanic
//@
//@ func (*Search).abort
//@   props C06 C08
//@   ensures [sticky] implies(old(s.aborted), s.aborted) && result == s.aborted
//@   modifies s.aborted
//@   nopanic
//@
//@ # ---- C08 (results are a function of the engine's stored state, the position and the limits only):
//@ # ---- nothing in the call tree of Go writes a package-level variable, so there is no hidden state
//@ # ---- shared between engine instances or surviving outside the Search value (mechanical SSA scan)
//@ func (*Search).Go view nostate
//@   props C08
//@   no-global-writes
//@
//@ define searchInv(s) = 0 <= s.hstack.sp && s.hstack.sp <= 64 && len(s.ms.frames) >= 0
//@ define restored(s, b) = bs(b) == old(bs(b)) && histKept(b) && s.hstack.sp == old(s.hstack.sp) && len(s.ms.frames) == old(len(s.ms.frames)) && s.ms.allocIx == old(s.ms.allocIx)
//@
//@ func (*Search).alphaBeta
//@   props C06 C08
//@   views search pvframe
//@   allow-extern fmt. time. os. strings. io.
//@   requires searchInv(s) && len(b.hashes) >= 1
//@   ensures [board]   bs(b) == old(bs(b)) && histKept(b)
//@   ensures [stacks]  s.hstack.sp == old(s.hstack.sp) && len(s.ms.frames) == old(len(s.ms.frames))
//@   ensures [abort]   implies(old(s.aborted), s.aborted)
//@   ensures [nodes]   nodesOK(opts)
//@   modifies b.*, s.aborted, s.hstack.*, s.pv.*, s.ms.*, s.tt.data.*, s.ranker.history.*, s.ranker.captHist.*, s.ranker.continuations[0].*, s.ranker.continuations[1].*, opts.Counters.*
//@   timeout 200
//@   at-call Insert@1 requires !s.aborted
//@   at-call FailHigh requires !s.aborted
//@   loop 1: invariant bs(b) == old(bs(b)) && histKept(b) && s.hstack.sp == old(s.hstack.sp) && len(s.ms.frames) == old(len(s.ms.frames)) + 1 && implies(old(s.aborted), s.aborted) && nodesOK(opts)
//@   loop 1: modifies b.*, s.aborted, s.hstack.*, s.pv.*, s.ms.*, s.tt.data.*, s.ranker.history.*, s.ranker.captHist.*, s.ranker.continuations[0].*, s.ranker.continuations[1].*, opts.Counters.*, pck.*
//@
//@ func (*Search).rankMovesQ
//@   props C06
//@   views search pvframe
//@   modifies moves.*
//@   loop 1: invariant true
//@   loop 1: modifies moves.*
//@
//@ func getNextMove
//@   props C06
//@   ensures [ix] implies(result0 != nil, result1 == ix + 1) && implies(result0 == nil, result1 == ix)
//@   modifies moves.*
//@   loop 1: invariant true
//@   loop 1: modifies nothing
//@
//@ func (*Search).quiescence
//@   props C06 C08
//@   views search pvframe
//@   allow-extern fmt. time. os. strings. io.
//@   requires searchInv(s) && len(b.hashes) >= 1
//@   ensures [board]   bs(b) == old(bs(b)) && histKept(b)
//@   ensures [stacks]  s.hstack.sp == old(s.hstack.sp) && len(s.ms.frames) == old(len(s.ms.frames))
//@   ensures [abort]   implies(old(s.aborted), s.aborted)
//@   ensures [nodes]   nodesOK(opts)
//@   modifies b.*, s.aborted, s.hstack.*, s.pv.*, s.ms.*, s.tt.data.*, opts.Counters.*
//@   loop 1: invariant bs(b) == old(bs(b)) && histKept(b) && s.hstack.sp == old(s.hstack.sp) && len(s.ms.frames) == old(len(s.ms.frames)) + 1 && implies(old(s.aborted), s.aborted) && nodesOK(opts)
//@   loop 1: modifies b.*, s.aborted, s.hstack.*, s.pv.*, s.ms.*, s.tt.data.*, opts.Counters.*
//@
//@ func pvInfo view search
//@   trusted read-only (builds a string)
//@   modifies nothing
//@
//@ func (*Search).iterativeDeepen
//@   props C06
//@   views search pvframe
//@   allow-extern fmt. time. os. strings. io.
//@   timeout 200
//@   requires searchInv(s) && len(b.hashes) >= 1
//@   ensures [board]  bs(b) == old(bs(b)) && histKept(b)
//@   ensures [stacks] s.hstack.sp == old(s.hstack.sp) && len(s.ms.frames) == old(len(s.ms.frames))
//@   modifies b.*, s.aborted, s.hstack.*, s.pv.*, s.ms.*, s.tt.data.*, s.ranker.history.*, s.ranker.captHist.*, s.ranker.continuations[0].*, s.ranker.continuations[1].*, opts.Counters.*, opts.PonderHit
//@   loop 1: invariant bs(b) == old(bs(b)) && histKept(b) && s.hstack.sp == old(s.hstack.sp) && len(s.ms.frames) == old(len(s.ms.frames))
//@   loop 1: modifies b.*, s.aborted, s.hstack.*, s.pv.*, s.ms.*, s.tt.data.*, s.ranker.history.*, s.ranker.captHist.*, s.ranker.continuations[0].*, s.ranker.continuations[1].*, opts.Counters.*, opts.PonderHit, move, ponder, score
//@   loop 2: invariant bs(b) == old(bs(b)) && histKept(b) && s.hstack.sp == old(s.hstack.sp) && len(s.ms.frames) == old(len(s.ms.frames))
//@   loop 2: modifies b.*, s.aborted, s.hstack.*, s.pv.*, s.ms.*, s.tt.data.*, s.ranker.history.*, s.ranker.captHist.*, s.ranker.continuations[0].*, s.ranker.continuations[1].*, opts.Counters.*, opts.PonderHit, move, ponder, score
//@   loop 3: invariant bs(b) == old(bs(b)) && histKept(b) && s.hstack.sp == old(s.hstack.sp) && len(s.ms.frames) == old(len(s.ms.frames)) + 1
//@   loop 3: modifies b.*, move
//@
//@ # ---- C07: principal variations.  Row `ply` of the triangular buffer starts at rowAt(ply) and holds
//@ # ---- depth[ply] moves.  lineS is defined by recursion on the length (lineNil, lineCons); lineSeg
//@ # ---- (a line depends only on the array segment it occupies) follows from them by induction on n.
//@ axiom lineNil(s $BS, a $MvArr, off int)
//@   concl lineNilOK(s, a, off)
//@ axiom lineCons(s $BS, a $MvArr, off int, n int)
//@   concl lineConsOK(s, a, off, n)
//@ # a line depends only on the array segment it occupies: by induction on its length
//@ lemma lineSeg(s $BS, a $MvArr, i int, b $MvArr, j int, n int)
//@   props C06 C07
//@   induct n
//@   hyp 0 <= n && n <= 4096 && 0 <= i && i <= 4096 && 0 <= j && j <= 4096 && i + n <= 4096 && j + n <= 4096 && forall(k, i, i + n, a[k] == b[k + (j - i)])
//@   use lineNil(s, a, i)
//@   use lineNil(s, b, j)
//@   use lineCons(s, a, i, n)
//@   use lineCons(s, b, j, n)
//@   use lineSeg(mkS(s, a[i]), a, i + 1, b, j + 1, n - 1)
//@   concl lineS(s, a, i, n) == lineS(s, b, j, n)
//@
//@ # gs: an arbitrary board state, [gof, gof+gn): an arbitrary segment of the buffer (schemas, see `instances`)
//@ ghost gs $BS
//@ ghost greportHead uint16
//@ ghost gof int
//@ ghost gn int
//@ define rowAt(ply) = int(ply)*64 - int(ply)*(int(ply)-1)/2
//@ define keepsBelow(pv, bound) = implies(0 <= gof && 0 <= gn && gof <= bound && gn <= bound - gof, lineS(gs, arr(pv.moves), gof, gn) == lineS(gs, old(arr(pv.moves)), gof, gn))
//@ define pvShape(pv, from) = all(q, 0, 63, implies(q >= int(from), 0 <= pv.depth[q] && int(pv.depth[q]) <= 63 - q))
//@
//@ func (*pv).insert
//@   props C06 C07
//@   requires 0 <= ply && ply < 63 && 0 <= pv.depth[ply+1] && int(pv.depth[ply+1]) <= 62 - int(ply)
//@   ensures [head]   pv.moves[rowAt(ply)] == m && pv.depth[ply] == old(pv.depth[ply+1]) + 1
//@   ensures [tail]   forall(k, 0, int(old(pv.depth[ply+1])), pv.moves[rowAt(ply) + 1 + k] == old(pv.moves[rowAt(ply+1) + k]))
//@   ensures [frame]  forall(x, 0, 2080, implies(x < rowAt(ply) || x > rowAt(ply) + int(old(pv.depth[ply+1])), pv.moves[x] == old(pv.moves[x])))
//@   ensures [depths] all(q, 0, 63, implies(q != int(ply), pv.depth[q] == old(pv.depth[q])))
//@   # in any state gs where m is accepted and the child's row is a valid line after m, the new row is a valid line
//@   ensures [cons]   implies(accS(gs, uint16(m)) && lineS(mkS(gs, uint16(m)), old(arr(pv.moves)), rowAt(ply+1), int(old(pv.depth[ply+1]))), lineS(gs, arr(pv.moves), rowAt(ply), int(pv.depth[ply])))
//@   ensures [keeps]  keepsBelow(pv, rowAt(ply))
//@   use lineInsert(gs, uint16(m), old(arr(pv.moves)), arr(pv.moves), rowAt(ply), rowAt(ply+1), int(old(pv.depth[ply+1]))) at exit
//@   use lineSeg(gs, arr(pv.moves), gof, old(arr(pv.moves)), gof, gn) at exit
//@   modifies pv.moves, pv.depth
//@   nopanic
//@
//@ func (*pv).setNull
//@   props C06 C07
//@   requires 0 <= ply && ply < 64
//@   ensures [null]   pv.depth[ply] == 0 && all(q, 0, 63, implies(q != int(ply), pv.depth[q] == old(pv.depth[q])))
//@   modifies pv.depth
//@   nopanic
//@
//@ # putting an accepted move in front of a line that is valid after it gives a valid line
//@ lemma lineInsert(s $BS, m $Mv, a $MvArr, a2 $MvArr, i int, j int, l int)
//@   props C06 C07
//@   use lineCons(s, a2, i, l + 1)
//@   use lineSeg(mkS(s, m), a2, i + 1, a, j, l)
//@   hyp l >= 0 && l < 64 && 0 <= i && i <= 2080 && 0 <= j && j <= 2080 && accS(s, m) && lineS(mkS(s, m), a, j, l) && a2[i] == m && forall(k, i + 1, i + 1 + l, a2[k] == a[k + (j - (i + 1))])
//@   concl lineS(s, a2, i, l + 1)
//@
//@ # quiescence never touches the PV buffer and restores the (abstract) board (proved here, against the body)
//@ func (*Search).quiescence view pv
//@   props C06 C07
//@   views pv search
//@   allow-extern fmt. time. os. strings. io.
//@   requires searchInv(s)
//@   ensures [board]   gbs == old(gbs)
//@   ensures [stacks]  s.hstack.sp == old(s.hstack.sp) && len(s.ms.frames) == old(len(s.ms.frames))
//@   modifies b.*, gbs, s.aborted, s.hstack.*, s.ms.*, s.tt.data.*, opts.Counters.*
//@   loop 1: invariant gbs == old(gbs) && s.hstack.sp == old(s.hstack.sp) && len(s.ms.frames) == old(len(s.ms.frames)) + 1
//@   loop 1: modifies b.*, gbs, s.aborted, s.hstack.*, s.ms.*, s.tt.data.*, opts.Counters.*
//@
//@ # row `ply` of the buffer is a line accepted move by move from the current position; rows above it
//@ # (plies < ply) are not touched
//@ define rowOK(s, ply) = lineS(gbs, arr(s.pv.moves), rowAt(ply), int(s.pv.depth[ply]))
//@ define rowLen(s, ply) = 0 <= s.pv.depth[ply] && int(s.pv.depth[ply]) <= 63 - int(ply)
//@ define rowsAbove(s, ply) = all(q, 0, 63, implies(q < int(ply), s.pv.depth[q] == old(s.pv.depth[q])))
//@
//@ func (*Search).alphaBeta view pv
//@   props C06 C07
//@   views pv search
//@   allow-extern fmt. time. os. strings. io.
//@   requires searchInv(s) && 0 <= ply && ply <= 63
//@   ensures [line]    rowOK(s, ply)
//@   ensures [len]     rowLen(s, ply)
//@   ensures [above]   rowsAbove(s, ply)
//@   ensures [keeps]   keepsBelow(s.pv, rowAt(ply))
//@   ensures [board]   gbs == old(gbs)
//@   ensures [stacks]  s.hstack.sp == old(s.hstack.sp) && len(s.ms.frames) == old(len(s.ms.frames))
//@   instances gs, gof, gn: old(gbs), rowAt(ply), int(s.pv.depth[ply])
//@   modifies b.*, gbs, s.aborted, s.hstack.*, s.pv.*, s.ms.*, s.tt.data.*, s.ranker.history.*, s.ranker.captHist.*, s.ranker.continuations[0].*, s.ranker.continuations[1].*, opts.Counters.*
//@   timeout 300
//@   # cuts at the point where the searched move is taken back: the child's row is a valid line after the
//@   # move whenever the move's value beat alpha, and the node's own row is still a valid line
//@   at-call UndoMove@2 requires [childRow] implies(value > alpha, lineS(gbs, arr(s.pv.moves), rowAt(ply+1), int(s.pv.depth[ply+1])) && 0 <= s.pv.depth[ply+1] && int(s.pv.depth[ply+1]) <= 62 - int(ply))
//@   at-call UndoMove@2 requires [ownRow]   lineS(old(gbs), arr(s.pv.moves), rowAt(ply), int(s.pv.depth[ply])) && rowLen(s, ply)
//@   use lineNil(gbs, arr(s.pv.moves), rowAt(ply)) at exit
//@   use lineNil(gbs, arr(s.pv.moves), rowAt(ply)) at loop1
//@   loop 1: invariant gbs == old(gbs) && s.hstack.sp == old(s.hstack.sp) && len(s.ms.frames) == old(len(s.ms.frames)) + 1
//@   loop 1: invariant rowLen(s, ply) && rowsAbove(s, ply)
//@   loop 1: invariant keepsBelow(s.pv, rowAt(ply))
//@   loop 1: invariant rowOK(s, ply)
//@   loop 1: modifies b.*, gbs, s.aborted, s.hstack.*, s.pv.*, s.ms.*, s.tt.data.*, s.ranker.history.*, s.ranker.captHist.*, s.ranker.continuations[0].*, s.ranker.continuations[1].*, opts.Counters.*, pck.*
//@
//@ # for the board / stack / budget clauses (C06, C08) the PV buffer operations are frame-only
//@ func (*pv).insert view pvframe
//@   trusted frame only (writes the PV buffer; proved in the main contract)
//@   modifies pv.moves, pv.depth
//@
//@ func (*pv).setNull view pvframe
//@   trusted frame only (writes the PV buffer; proved in the main contract)
//@   modifies pv.depth
//@
//@ # ---- the move returned by the iterative deepening and its ponder move
//@ define moveOK(mv, pd) = implies(mv != 0, accS(gbs, uint16(mv))) && implies(pd != 0, accS(mkS(gbs, uint16(mv)), uint16(pd)))
//@ func (*Search).iterativeDeepen view pv
//@   props C06 C07
//@   views pv search
//@   allow-extern fmt. time. os. strings. io.
//@   timeout 300
//@   requires searchInv(s) && greportHead == 0 && opts.Output != nil
//@   ensures [move]   implies(result1 != 0, accS(gbs, uint16(result1)))
//@   ensures [ponder] implies(result2 != 0, accS(mkS(gbs, uint16(result1)), uint16(result2)))
//@   ensures [board]  gbs == old(gbs)
//@   # what is reported is what would be returned: the first (and second) move of the reported variation
//@   at-call Fprintf@2 requires [reported] implies(s.pv.depth[0] >= 1, move == s.pv.moves[0]) && implies(s.pv.depth[0] >= 2, ponder == s.pv.moves[1]) && implies(s.pv.depth[0] == 1, ponder == 0)
//@   # reported depths strictly increase: every report carries the number of the current iteration of the
//@   # deepening loop (ghost iteration counter), and an iteration reports at most once at each site
//@   # the move returned is the head of the most recent report: greportHead is set at every `info ... pv`
//@   # report (ghost assignment) and every return that hands back a reported move hands back exactly it
//@   at-call Fprintf@2 sets greportHead = uint16(move)
//@   ensures [reportedHead] implies(greportHead != 0, uint16(result1) == greportHead)
//@   at-call Fprintf@1 requires [depthA] int(idD) == count(1)
//@   at-call Fprintf@2 requires [depthB] int(idD) == count(1)
//@   use lineCons(gbs, arr(s.pv.moves), 0, int(s.pv.depth[0])) at call active@1
//@   use lineCons(mkS(gbs, uint16(s.pv.moves[0])), arr(s.pv.moves), 1, int(s.pv.depth[0]) - 1) at call active@1
//@   modifies greportHead, b.*, gbs, s.aborted, s.hstack.*, s.pv.*, s.ms.*, s.tt.data.*, s.ranker.history.*, s.ranker.captHist.*, s.ranker.continuations[0].*, s.ranker.continuations[1].*, opts.Counters.*, opts.PonderHit
//@   loop 1: invariant gbs == old(gbs) && s.hstack.sp == old(s.hstack.sp) && len(s.ms.frames) == old(len(s.ms.frames)) && moveOK(move, ponder) && int(idD) == count(1) && 0 <= idD && (greportHead == 0 || uint16(move) == greportHead)
//@   loop 1: modifies b.*, gbs, s.aborted, s.hstack.*, s.pv.*, s.ms.*, s.tt.data.*, s.ranker.history.*, s.ranker.captHist.*, s.ranker.continuations[0].*, s.ranker.continuations[1].*, opts.Counters.*, opts.PonderHit, move, ponder, score, greportHead
//@   loop 2: invariant gbs == old(gbs) && s.hstack.sp == old(s.hstack.sp) && len(s.ms.frames) == old(len(s.ms.frames)) && moveOK(move, ponder) && implies(awOk, rowOK(s, 0) && rowLen(s, 0)) && (greportHead == 0 || uint16(move) == greportHead)
//@   loop 2: modifies b.*, gbs, s.aborted, s.hstack.*, s.pv.*, s.ms.*, s.tt.data.*, s.ranker.history.*, s.ranker.captHist.*, s.ranker.continuations[0].*, s.ranker.continuations[1].*, opts.Counters.*, opts.PonderHit, move, ponder, score
//@   loop 3: invariant gbs == old(gbs) && s.hstack.sp == old(s.hstack.sp) && len(s.ms.frames) == old(len(s.ms.frames)) + 1 && moveOK(move, ponder) && ponder == 0 && greportHead == 0
//@   loop 3: modifies b.*, gbs, move
