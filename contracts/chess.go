//go:build verif

package chess

// Comment-only contract file for the deductive verifier in /verif (see /verif/DESIGN.md).
// It contains no code; with the build tag off the file is not even compiled.
//
// The small helpers of this package are inlined by the verifier at their call sites; only loop
// bounds are needed here.
//
//@ func BitBoardFromSquares
//@   loop 1: unroll 4
