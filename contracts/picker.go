//go:build verif

package picker

// Comment-only contract file for the deductive verifier in /verif (see /verif/DESIGN.md).
// It contains no code; with the build tag off the file is not even compiled.
//
//@ import geom.smt2 rules.smt2
//@
//@ func (*Picker).Next view search
//@   trusted frame only: advances the picker and fills the top frame of the move store; never touches the board or the frame stack
//@   modifies p.state, p.ix, p.ms.allocIx, p.ms.data.*
//@
//@ # ---- C16: the staged iteration, one call of Next at a time.
//@ # fs: start of the top frame of the move store; the picker's frame is data[fs : allocIx];
//@ # its first ix entries have been yielded, the others are pending.
//@ # gi is an arbitrary fixed (absolute) index into the store.
//@ define fs(ms) = ite(len(ms.frames) != 0, ms.frames[len(ms.frames)-1].ix, 0)
//@ define msOK(ms) = 0 <= fs(ms) && fs(ms) <= ms.allocIx && ms.allocIx <= len(ms.data)
//@ define flen(p) = p.ms.allocIx - fs(p.ms)
//@ define ent(p, k) = p.ms.data[fs(p.ms) + k]
//@ define pend(p, j) = fs(p.ms) + p.ix <= j && j < p.ms.allocIx
//@ # a pending entry that repeats the hash move carries the sentinel weight; every other one is above it
//@ define wOK(e, h) = ite(e.Move == h, e.Weight == -16384, e.Weight >= -8192)
//@ # (state 0: the frame is empty and there is room for the hash move - capacity of the store is assumed)
//@ define PIshape(p) = msOK(p.ms) && 0 <= p.ix && p.ix <= flen(p) && p.state <= 4 && implies(p.state == 0, p.ix == 0 && flen(p) == 0 && p.ms.allocIx < len(p.ms.data)) && implies(p.state == 1, p.ix == 1 && flen(p) == 1 && ent(p, 0).Move == p.hashMove)
//@ define PImarks(p) = implies(p.state >= 2 && pend(p, gi), wOK(p.ms.data[gi], p.hashMove))
//@ define PI(p) = PIshape(p) && PImarks(p)
//@
//@ func (*Picker).Next
//@   props C16
//@   views picker
//@   # the clauses over the arbitrary index gi are schemas; they are also used at the first pending entry
//@   instances gi: fs(p.ms) + p.ix
//@   requires PI(p) && repOK(p.board) && validPos(pos(p.board)) && p.hashMove < 1<<15
//@   ensures [shape]     PIshape(p)
//@   ensures [marks]     PImarks(p)
//@   ensures [yield]     implies(result, p.ix == old(p.ix) + 1 && ent(p, p.ix - 1).Weight > -16384)
//@   ensures [hashFirst] implies(old(p.state) == 0, (result && p.state == 1) == pseudo(pos(p.board), uint16(p.hashMove)) && implies(p.state == 1, ent(p, 0).Move == p.hashMove && ent(p, 0).Weight == 16384))
//@   ensures [prefix]    implies(0 <= gi && gi < old(fs(p.ms) + p.ix), p.ms.data[gi] == old(p.ms.data[gi]))
//@   ensures [exhausted] implies(!result, p.state == 4 && implies(pend(p, gi), p.ms.data[gi].Move == p.hashMove))
//@   ensures [best]      implies(result && p.state >= 2 && pend(p, gi), p.ms.data[gi].Weight <= ent(p, p.ix - 1).Weight)
//@   modifies p.state, p.ix, p.ms.allocIx, p.ms.data.*
//@   nopanic
//@   # rank loops: entries ranked so far obey the sentinel rule; moves and the yielded prefix never change
//@   loop 1: invariant p.ix <= i && i <= flen(p) && implies(fs(p.ms) + p.ix <= gi && gi < fs(p.ms) + i, wOK(p.ms.data[gi], p.hashMove)) && implies(0 <= gi && gi < len(p.ms.data), p.ms.data[gi].Move == pre(p.ms.data[gi].Move)) && implies(0 <= gi && gi < fs(p.ms) + p.ix, p.ms.data[gi] == pre(p.ms.data[gi]))
//@   loop 1: modifies p.ms.data.*
//@   # selection loops: best is the first maximum seen so far above the threshold
//@   loop 2: invariant p.ix <= i && i <= flen(p) && maxim >= 0 && ite(best == -1, maxim == 0, p.ix <= best && best < i && ent(p, best).Weight == maxim) && implies(fs(p.ms) + p.ix <= gi && gi < fs(p.ms) + i, p.ms.data[gi].Weight <= maxim)
//@   loop 2: modifies nothing
//@   loop 3: invariant quietStart <= i && i <= flen(p) && implies(fs(p.ms) + p.ix <= gi && gi < fs(p.ms) + i, wOK(p.ms.data[gi], p.hashMove)) && implies(0 <= gi && gi < len(p.ms.data), p.ms.data[gi].Move == pre(p.ms.data[gi].Move)) && implies(0 <= gi && gi < fs(p.ms) + p.ix, p.ms.data[gi] == pre(p.ms.data[gi]))
//@   loop 3: modifies p.ms.data.*
//@   loop 4: invariant p.ix <= i && i <= flen(p) && maxim >= -16383 && ite(best == -1, maxim == -16383, p.ix <= best && best < i && ent(p, best).Weight == maxim) && implies(fs(p.ms) + p.ix <= gi && gi < fs(p.ms) + i, p.ms.data[gi].Weight <= maxim)
//@   loop 4: modifies nothing
