//go:build verif

package picker

// Comment-only contract file for the deductive verifier in /verif (see /verif/DESIGN.md).
// It contains no code; with the build tag off the file is not even compiled.
//
//@ func (*Picker).Next view search
//@   trusted frame only: advances the picker and fills the top frame of the move store; never touches the board or the frame stack
//@   modifies p.state, p.ix, p.ms.allocIx, p.ms.data.*
