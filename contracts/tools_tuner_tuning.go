//go:build verif

package tuning

// Comment-only contract file for the deductive verifier in /verif (see /verif/DESIGN.md).
// It contains no code; with the build tag off the file is not even compiled.
//
// Property C20: batches partition the index range and chunks partition each batch.  The iterator
// bodies are the closures Batches$1 / Chunks$1; yield is called through a function value under a
// callback contract.  tcur is a ghost cursor: the end of the last range handed to yield.  Every range
// handed over starts exactly at the cursor, is non-empty and stays inside the total, and the loop can
// only run out when the cursor has reached the end: consecutive ranges tile the interval without gap
// or overlap, whatever the step constants are.
//
//@ ghost tcur int
//@ # tgo: the consumer has not asked to stop (the last call of yield, if any, returned true)
//@ ghost tgo bool
//@
//@ func Batches$1
//@   props C20
//@   requires 0 <= numEntries && numEntries < 1<<61 && tcur == 0 && tgo
//@   callback-requires start == tcur && start < end && end <= numEntries
//@   callback-modifies tcur, tgo
//@   callback-ensures tcur == end && tgo == result
//@   # unless the consumer stops the iteration, the ranges handed over reach the end of the interval
//@   ensures [complete] implies(tgo, tcur == numEntries)
//@   nopanic
//@   loop 1: invariant 0 <= start && start < 1<<62 && (start == tcur || (tcur == numEntries && start >= numEntries)) && tcur <= numEntries && tgo
//@   loop 1: modifies tcur, tgo
//@
//@ func Chunks$1
//@   props C20
//@   requires 0 <= batch.Start && batch.Start <= batch.End && batch.End < 1<<61 && tcur == batch.Start && tgo
//@   callback-requires start == tcur && start < end && end <= batch.End
//@   callback-modifies tcur, tgo
//@   callback-ensures tcur == end && tgo == result
//@   ensures [complete] implies(tgo, tcur == batch.End)
//@   nopanic
//@   loop 1: invariant batch.Start <= start && start < 1<<62 && (start == tcur || (tcur == batch.End && start >= batch.End)) && tcur <= batch.End && tgo
//@   loop 1: modifies tcur, tgo
