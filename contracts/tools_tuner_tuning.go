//go:build verif

package tuning

// Comment-only contract file for the deductive verifier in /verif (see /verif/DESIGN.md).
// It contains no code; with the build tag off the file is not even compiled.
//
// Property C20: batches partition the index range and chunks partition each batch.  The iterator
// bodies are the closures Batches$1 / Chunks$1; yield is called through a function value under a
// callback contract.  tcur is a ghost cursor: the end of the last range handed to yield.  Every range
// handed over starts exactly at the cursor, is non-empty and stays inside the total, and the loop can
// only run out when the cursor has reached the end: consecutive ranges tile the interval without gap
// or overlap, whatever the step constants are.
//
//@ ghost tcur int
//@
//@ func Batches$1
//@   props C20
//@   requires 0 <= numEntries && numEntries < 1<<61 && tcur == 0
//@   callback-requires start == tcur && start < end && end <= numEntries
//@   callback-modifies tcur
//@   callback-ensures tcur == end
//@   nopanic
//@   loop 1: invariant 0 <= start && start < 1<<62 && (start == tcur || (tcur == numEntries && start >= numEntries))
//@   loop 1: modifies tcur
//@
//@ func Chunks$1
//@   props C20
//@   requires 0 <= batch.Start && batch.Start <= batch.End && batch.End < 1<<61 && tcur == batch.Start
//@   callback-requires start == tcur && start < end && end <= batch.End
//@   callback-modifies tcur
//@   callback-ensures tcur == end
//@   nopanic
//@   loop 1: invariant batch.Start <= start && start < 1<<62 && (start == tcur || (tcur == batch.End && start >= batch.End))
//@   loop 1: modifies tcur
