//go:build verif

package heur

// Comment-only contract file for the deductive verifier in /verif (see /verif/DESIGN.md).
// It contains no code; with the build tag off the file is not even compiled.
//
// Property C16 (history bands).  gc/gf/gt etc. are arbitrary fixed ghost indices: each update
// function is proved to keep an arbitrary cell inside [-MaxHistory, MaxHistory] whatever the bonus.
//
//@ ghost hc Color
//@ ghost hf Square
//@ ghost ht Square
//@ ghost hp1 int
//@ ghost hp2 int
//@
//@ define inBand(v) = -1024 <= v && v <= 1024
//@ define sqOK(s) = 0 <= s && s < 64
//@
//@ define clampB(x) = min(Score(1024), max(x, Score(-1024)))
//@ define absS(x) = ite(x < 0, -x, x)
//@ define gravity(v, bonus) = v + clampB(bonus) - Score(int(v)*int(absS(clampB(bonus)))/1024)
//@
//@ lemma gravityKeepsBand(v Score, bonus Score)
//@   props C16
//@   hyp inBand(v)
//@   concl inBand(gravity(v, bonus))
//@
//@ func (*History).Add
//@   props C16
//@   requires stm <= 1 && sqOK(from) && sqOK(to)
//@   requires hc <= 1 && sqOK(hf) && sqOK(ht) && inBand(h.data[hc][hf][ht])
//@   use gravityKeepsBand(h.data[stm][from][to], bonus)
//@   ensures [cell] h.data[stm][from][to] == gravity(old(h.data[stm][from][to]), bonus)
//@   ensures [band] inBand(h.data[hc][hf][ht])
//@   modifies h.data
//@   nopanic
//@
//@ func (*History).LookUp
//@   props C16
//@   requires stm <= 1 && sqOK(from) && sqOK(to)
//@   ensures [cell] result == h.data[stm][from][to]
//@   modifies nothing
//@   nopanic
//@
//@ func (*Continuation).Add
//@   props C16
//@   requires stm <= 1 && 1 <= ptHist && ptHist <= 6 && sqOK(toHist) && 1 <= pt && pt <= 6 && sqOK(to)
//@   requires hc <= 1 && 0 <= hp1 && hp1 < 6 && sqOK(hf) && 0 <= hp2 && hp2 < 6 && sqOK(ht) && inBand(c.data[hc][hp1][hf][hp2][ht])
//@   use gravityKeepsBand(c.data[stm][ptHist-1][toHist][pt-1][to], bonus)
//@   ensures [cell] c.data[stm][ptHist-1][toHist][pt-1][to] == gravity(old(c.data[stm][ptHist-1][toHist][pt-1][to]), bonus)
//@   ensures [band] inBand(c.data[hc][hp1][hf][hp2][ht])
//@   modifies c.data
//@   nopanic
//@
//@ func (*Continuation).LookUp
//@   props C16
//@   requires stm <= 1 && 1 <= ptHist && ptHist <= 6 && sqOK(toHist) && 1 <= pt && pt <= 6 && sqOK(to)
//@   ensures [cell] result == c.data[stm][ptHist-1][toHist][pt-1][to]
//@   modifies nothing
//@   nopanic
//@
//@ func (*CaptHist).Add
//@   props C16
//@   requires 1 <= moved && moved <= 6 && 1 <= captured && captured <= 5 && sqOK(sq)
//@   requires 0 <= hp1 && hp1 < 6 && 0 <= hp2 && hp2 < 5 && sqOK(ht) && inBand(c.data[hp1][hp2][ht])
//@   use gravityKeepsBand(c.data[moved-1][captured-1][sq], bonus)
//@   ensures [cell] c.data[moved-1][captured-1][sq] == gravity(old(c.data[moved-1][captured-1][sq]), bonus)
//@   ensures [band] inBand(c.data[hp1][hp2][ht])
//@   modifies c.data
//@   nopanic
//@
//@ func (*CaptHist).LookUp
//@   props C16
//@   requires 1 <= moved && moved <= 6 && 1 <= captured && captured <= 5 && sqOK(sq)
//@   ensures [cell] result == c.data[moved-1][captured-1][sq]
//@   modifies nothing
//@   nopanic
//@
//@ func (*Continuation).Clear
//@   props C16
//@   requires hc <= 1 && 0 <= hp1 && hp1 < 6 && sqOK(hf) && 0 <= hp2 && hp2 < 6 && sqOK(ht)
//@   ensures [zero] c.data[hc][hp1][hf][hp2][ht] == 0
//@   modifies c.data
//@   nopanic
//@
//@ func (*CaptHist).Clear
//@   props C16
//@   requires 0 <= hp1 && hp1 < 6 && 0 <= hp2 && hp2 < 5 && sqOK(ht)
//@   ensures [zero] c.data[hp1][hp2][ht] == 0
//@   modifies c.data
//@   nopanic
//@
//@ func (*History).Clear
//@   props C16
//@   requires hc <= 1 && sqOK(hf) && sqOK(ht)
//@   ensures [zero] h.data[hc][hf][ht] == 0
//@   modifies h.data
//@   nopanic
//@   loop 1: invariant 0 <= iter(1) && iter(1) < 2 && implies(hc < iter(1), h.data[hc][hf][ht] == 0)
//@   loop 2: invariant 0 <= iter(2) && iter(2) < 64 && implies(hc < iter(1) || (hc == iter(1) && hf < iter(2)), h.data[hc][hf][ht] == 0)
//@   loop 3: invariant 0 <= iter(3) && iter(3) < 64 && implies(hc < iter(1) || (hc == iter(1) && (hf < iter(2) || (hf == iter(2) && ht < iter(3)))), h.data[hc][hf][ht] == 0)
//@
//@ # ---- rank bands: a quiet rank is a sum of three history cells; a noisy rank lies in one of the two capture bands
//@ func (*MoveRanker).RankQuiet
//@   props C16
//@   requires b.STM <= 1 && 1 <= b.SquaresToPiece[m.From()] && b.SquaresToPiece[m.From()] <= 6 && stack.sp >= 0 && stack.sp <= 64
//@   requires implies(stack.sp > 0, 1 <= stack.data[stack.sp-1].Piece && stack.data[stack.sp-1].Piece <= 6 && sqOK(stack.data[stack.sp-1].To))
//@   requires implies(stack.sp > 1, 1 <= stack.data[stack.sp-2].Piece && stack.data[stack.sp-2].Piece <= 6 && sqOK(stack.data[stack.sp-2].To))
//@   requires inBand(mr.history.data[b.STM][m.From()][m.To()])
//@   requires implies(stack.sp > 0, inBand(mr.continuations[0].data[b.STM][stack.data[stack.sp-1].Piece-1][stack.data[stack.sp-1].To][b.SquaresToPiece[m.From()]-1][m.To()]))
//@   requires implies(stack.sp > 1, inBand(mr.continuations[1].data[b.STM][stack.data[stack.sp-2].Piece-1][stack.data[stack.sp-2].To][b.SquaresToPiece[m.From()]-1][m.To()]))
//@   ensures [band] -3072 <= result && result <= 3072
//@   modifies nothing
//@   nopanic
//@
//@ func (*MoveRanker).RankNoisy
//@   props C16
//@   requires b.STM <= 1 && m < 1<<15 && (m >> 12) <= 5 && (m >> 12) != 1 && all(i, 0, 63, b.SquaresToPiece[i] <= 6)
//@   requires 1 <= b.SquaresToPiece[m.From()] && b.SquaresToPiece[b.CaptureSq(m)] <= 5
//@   ensures [band] (7168 <= result && result <= 7168 + 209) || (-8192 <= result && result <= -8192 + 209)
//@   modifies nothing
//@   nopanic
//@
//@ # ---- `search` views
//@ func (*MoveRanker).FailHigh view search
//@   trusted frame only: updates the history tables
//@   modifies mr.history.*, mr.captHist.*, mr.continuations[0].*, mr.continuations[1].*
//@
//@ func (*MoveRanker).RankNoisy view search
//@   trusted read-only
//@   modifies nothing
//@
//@ # ---- C18 (safety part): the exchange evaluation never panics, never writes, and its exchange
//@ # ---- square bookkeeping only ever removes pieces from the occupancy
//@ func SEE
//@   props C18
//@   requires b.STM <= 1 && m < 1<<15 && (m >> 12) <= 6 && all(i, 0, 63, b.SquaresToPiece[i] <= 6)
//@   modifies nothing
//@   nopanic
//@   loop 1: invariant stm <= 1 && res <= 1 && 1 <= start[0] && start[0] <= 3 && 1 <= start[1] && start[1] <= 3 && occ & ^pre(occ) == 0
//@   loop 1: modifies start
//@
//@ # ---- C18 (equivalence): the answer is exactly "the exchange value of m is at least the threshold" in
//@ # ---- the capture-sequence game of spec/see.smt2.  seeY is defined by recursion on the remaining
//@ # ---- occupancy; axiom seeUnfold is that definition (one unfolding per loop iteration is all the
//@ # ---- proof needs).  Verified as a second contract (`view equiv`) against the same body.
//@ import geom.smt2 rules.smt2 see.smt2
//@ axiom seeUnfold(p $Pos, occ BitBoard, c Color, t Square)
//@   concl seeUnfoldOK(p, occ, uint8(c), uint8(t))
//@
//@ define seeAnswer(b, m, threshold) = seeSpec(pos(b), uint16(m), int16(threshold))
//@ define seeYnow(b, occ, stm, to) = seeY(pos(b), occ, uint8(stm ^ 1), uint8(to))
//@ func SEE view equiv
//@   props C18
//@   timeout 600
//@   requires repOK(b) && validPos(pos(b)) && pseudo(pos(b), uint16(m)) && -4000 <= threshold && threshold <= 4000
//@   use board.repInstance(b, m.From())
//@   use board.repInstance(b, b.CaptureSq(m))
//@   ensures [equiv] result == seeAnswer(b, m, threshold)
//@   modifies nothing
//@   use seeUnfold(pos(b), occ, stm ^ 1, to) at loop1
//@   loop 1: invariant stm <= 1 && 0 <= res && res <= 1 && 1 <= start[0] && start[0] <= 3 && 1 <= start[1] && start[1] <= 3 && occ & ^pre(occ) == 0
//@   # the incrementally maintained attacker set is the set of attackers under the remaining occupancy
//@   loop 1: invariant attackers & occ == seeAtt(pos(b), occ, uint8(to))
//@   # progress markers: a side whose marker passed pawns (knights) has no pawn (knight) attacker left
//@   loop 1: invariant all(c, 0, 1, implies(start[c] >= 2, attackers & occ & b.Colors[c] & b.Pieces[1] == 0) && implies(start[c] >= 3, attackers & occ & b.Colors[c] & b.Pieces[2] == 0))
//@   # the threshold form: with res == 1 the answer is "the opponent keeps at least swap", with res == 0 "at most swap"
//@   loop 1: invariant ite(res == 1, 1 <= swap && swap <= 10800 && seeAnswer(b, m, threshold) == (seeYnow(b, occ, stm, to) >= swap), 0 <= swap && swap <= 10800 && seeAnswer(b, m, threshold) == (seeYnow(b, occ, stm, to) <= swap))
//@   loop 1: modifies start
//@
//@ # ---- `picker` views (C16): only the bands of the ranks matter to the picker.  Both bands are
//@ # ---- proved in the main contracts; their structural preconditions (piece codes, square ranges,
//@ # ---- every history cell within +-1024) are the representation invariant of the board, the
//@ # ---- generators' output (C01) and the table invariant that every Add / Clear preserves.
//@ func (*MoveRanker).RankNoisy view picker
//@   trusted band proved in the main contract (post.band); preconditions discharged by C01/C04 invariants, not re-checked here
//@   ensures (7168 <= result && result <= 7168 + 209) || (-8192 <= result && result <= -8192 + 209)
//@   modifies nothing
//@
//@ func (*MoveRanker).RankQuiet view picker
//@   trusted band proved in the main contract (post.band) under the table invariant
//@   ensures -3072 <= result && result <= 3072
//@   modifies nothing
