//go:build verif

package movegen

// Comment-only contract file for the deductive verifier in /verif (see /verif/DESIGN.md).
// It contains no code; with the build tag off the file is not even compiled.
//
// Property C01.  gm is an arbitrary fixed move encoding and cnt counts the calls Alloc(gm) (ghosts
// declared in package move).  Every generator function is proved to raise cnt by exactly one if gm
// belongs to the slice of the rules it is responsible for, and not at all otherwise: it emits
// exactly its slice, each move once.  Lemma slicesArePseudo shows the slices partition the
// pseudo-legal moves of the rule specification.
//
//@ import geom.smt2 rules.smt2
//@
//@ define genOK(g, b) = b.STM <= 1 && g.self == b.Colors[b.STM] && g.them == b.Colors[b.STM^1] && g.occ == b.Colors[0] | b.Colors[1] && b.Pieces[1] & 0xff000000000000ff == 0 && onehot(b.Pieces[6] & b.Colors[b.STM]) && rightsOK(pos(b))
//@ define gFrom() = Square((gm >> 6) & 63)
//@ define gTo() = Square(gm & 63)
//@ define gKind() = gm >> 12
//@ define gPlain() = gm >> 12 == 0
//@ define gPromo() = gm >> 12 >= 2 && gm >> 12 <= 5
//@ define sq8(s) = uint8(s)
//@
//@ # the slices, as predicates of the board (self/them/occ are the generator's fields)
//@ define sLeaper(self, pieces, fromMsk, toMsk, set) = gPlain() && bit(self & pieces & fromMsk, gFrom()) && bit(set &^ self & toMsk, gTo())
//@ define sKing(b, self, fromMsk, toMsk) = gPlain() && self & b.Pieces[6] & fromMsk != 0 && gFrom() == (self & b.Pieces[6] & fromMsk).LowestSet() && bit(kingSet(sqbit(sq8(gFrom()))) &^ self & toMsk, gTo())
//@ define sKnight(b, self, fromMsk, toMsk) = sLeaper(self, b.Pieces[2], fromMsk, toMsk, knightSet(sqbit(sq8(gFrom()))))
//@ define sBishop(b, self, occ, fromMsk, toMsk) = sLeaper(self, b.Pieces[3], fromMsk, toMsk, bishopWalk(sq8(gFrom()), occ))
//@ define sRook(b, self, occ, fromMsk, toMsk) = sLeaper(self, b.Pieces[4], fromMsk, toMsk, rookWalk(sq8(gFrom()), occ))
//@ define sQueen(b, self, occ, fromMsk, toMsk) = sLeaper(self, b.Pieces[5], fromMsk, toMsk, bishopWalk(sq8(gFrom()), occ) | rookWalk(sq8(gFrom()), occ))
//@ define sPush(b, self, occ, fromMsk) = bit(self & b.Pieces[1] & fromMsk, gFrom()) && pawnPush1(uint8(b.STM), sq8(gFrom()), sq8(gTo())) && !has(occ, sq8(gTo()))
//@ define sSingle(b, self, occ, fromMsk) = gPlain() && sPush(b, self, occ, fromMsk) && !lastRank(uint8(b.STM), sq8(gTo()))
//@ define sPromoPush(b, self, occ, fromMsk) = gPromo() && sPush(b, self, occ, fromMsk) && lastRank(uint8(b.STM), sq8(gTo()))
//@ define sDouble(b, self, occ, fromMsk) = gPlain() && bit(self & b.Pieces[1] & fromMsk, gFrom()) && startRank(uint8(b.STM), sq8(gFrom())) && gTo() == gFrom() + 2*shifts[b.STM] && !has(occ, sq8(gFrom() + shifts[b.STM])) && !has(occ, sq8(gTo()))
//@ define sCapt(b, self, them) = bit(self & b.Pieces[1], gFrom()) && pawnAtt(uint8(b.STM), sq8(gFrom()), sq8(gTo())) && has(them, sq8(gTo()))
//@ define sCapture(b, self, them) = gPlain() && sCapt(b, self, them) && !lastRank(uint8(b.STM), sq8(gTo()))
//@ define sCapturePromo(b, self, them) = gPromo() && sCapt(b, self, them) && lastRank(uint8(b.STM), sq8(gTo()))
//@ define sEnPassant(b, self) = gPlain() && b.EnPassant != 0 && gTo() == b.EnPassant && bit(self & b.Pieces[1], gFrom()) && pawnAtt(uint8(b.STM), sq8(gFrom()), sq8(gTo()))
//@ define shortMask(b) = ite(b.STM == 0, BitBoard(0x70), BitBoard(0x7000000000000000))
//@ define longMask(b) = ite(b.STM == 0, BitBoard(0x1c), BitBoard(0x1c00000000000000))
//@ define sShort(b, self, occ, rChk) = gPlain() && b.Castles & (Castles(1) << (2*b.STM)) != 0 && occ & shortMask(b) == self & b.Pieces[6] && shortMask(b) & rChk != 0 && attackedSet(pos(b), uint8(b.STM^1), occ) & shortMask(b) == 0 && gFrom() == (self & b.Pieces[6]).LowestSet() && gTo() == gFrom() + 2
//@ define sLong(b, self, occ, rChk) = gPlain() && b.Castles & (Castles(2) << (2*b.STM)) != 0 && occ & (longMask(b) >> 1) == 0 && longMask(b) & rChk != 0 && attackedSet(pos(b), uint8(b.STM^1), occ) & longMask(b) == 0 && gFrom() == (self & b.Pieces[6]).LowestSet() && gTo() == gFrom() - 2
//@
//@ func (generator).knightMoves
//@   props C01
//@   requires genOK(g, b)
//@   ensures [count] cnt == old(cnt) + b2i(sKnight(b, g.self, fromMsk, toMsk))
//@   modifies cnt, ms.allocIx, ms.data.*
//@   loop 1: invariant knights & ^pre(knights) == 0 && cnt == pre(cnt) + b2i(gPlain() && bit(pre(knights) &^ knights, gFrom()) && bit(knightSet(sqbit(sq8(gFrom()))) &^ g.self & toMsk, gTo()))
//@   loop 2: invariant tSqrs & ^pre(tSqrs) == 0 && onBoard(from) && cnt == pre(cnt) + b2i(gPlain() && gFrom() == from && bit(pre(tSqrs) &^ tSqrs, gTo()))
//@   loop 1: modifies cnt, ms.allocIx, ms.data.*
//@   loop 2: modifies cnt, ms.allocIx, ms.data.*
//@
//@ func (generator).bishopMoves
//@   props C01
//@   requires genOK(g, b)
//@   ensures [count] cnt == old(cnt) + b2i(sBishop(b, g.self, g.occ, fromMsk, toMsk))
//@   modifies cnt, ms.allocIx, ms.data.*
//@   loop 1: invariant bishops & ^pre(bishops) == 0 && cnt == pre(cnt) + b2i(gPlain() && bit(pre(bishops) &^ bishops, gFrom()) && bit(bishopWalk(sq8(gFrom()), g.occ) &^ g.self & toMsk, gTo()))
//@   loop 2: invariant tSqrs & ^pre(tSqrs) == 0 && onBoard(from) && cnt == pre(cnt) + b2i(gPlain() && gFrom() == from && bit(pre(tSqrs) &^ tSqrs, gTo()))
//@   loop 1: modifies cnt, ms.allocIx, ms.data.*
//@   loop 2: modifies cnt, ms.allocIx, ms.data.*
//@
//@ func (generator).rookMoves
//@   props C01
//@   requires genOK(g, b)
//@   ensures [count] cnt == old(cnt) + b2i(sRook(b, g.self, g.occ, fromMsk, toMsk))
//@   modifies cnt, ms.allocIx, ms.data.*
//@   loop 1: invariant rooks & ^pre(rooks) == 0 && cnt == pre(cnt) + b2i(gPlain() && bit(pre(rooks) &^ rooks, gFrom()) && bit(rookWalk(sq8(gFrom()), g.occ) &^ g.self & toMsk, gTo()))
//@   loop 2: invariant tSqrs & ^pre(tSqrs) == 0 && onBoard(from) && cnt == pre(cnt) + b2i(gPlain() && gFrom() == from && bit(pre(tSqrs) &^ tSqrs, gTo()))
//@   loop 1: modifies cnt, ms.allocIx, ms.data.*
//@   loop 2: modifies cnt, ms.allocIx, ms.data.*
//@
//@ func (generator).queenMoves
//@   props C01
//@   requires genOK(g, b)
//@   ensures [count] cnt == old(cnt) + b2i(sQueen(b, g.self, g.occ, fromMsk, toMsk))
//@   modifies cnt, ms.allocIx, ms.data.*
//@   loop 1: invariant queens & ^pre(queens) == 0 && cnt == pre(cnt) + b2i(gPlain() && bit(pre(queens) &^ queens, gFrom()) && bit((bishopWalk(sq8(gFrom()), g.occ) | rookWalk(sq8(gFrom()), g.occ)) &^ g.self & toMsk, gTo()))
//@   loop 2: invariant tSqrs & ^pre(tSqrs) == 0 && onBoard(from) && cnt == pre(cnt) + b2i(gPlain() && gFrom() == from && bit(pre(tSqrs) &^ tSqrs, gTo()))
//@   loop 1: modifies cnt, ms.allocIx, ms.data.*
//@   loop 2: modifies cnt, ms.allocIx, ms.data.*
//@
//@ func (generator).kingMoves
//@   props C01
//@   requires genOK(g, b)
//@   ensures [count] cnt == old(cnt) + b2i(sKing(b, g.self, fromMsk, toMsk))
//@   modifies cnt, ms.allocIx, ms.data.*
//@   loop 1: invariant tSqrs & ^pre(tSqrs) == 0 && onBoard(from) && cnt == pre(cnt) + b2i(gPlain() && gFrom() == from && bit(pre(tSqrs) &^ tSqrs, gTo()))
//@   loop 1: modifies cnt, ms.allocIx, ms.data.*
//@
//@ func (generator).singlePushMoves
//@   props C01
//@   requires genOK(g, b)
//@   ensures [count] cnt == old(cnt) + b2i(sSingle(b, g.self, g.occ, fromMsk))
//@   modifies cnt, ms.allocIx, ms.data.*
//@   loop 1: invariant pawns & ^pre(pawns) == 0 && cnt == pre(cnt) + b2i(gPlain() && bit(pre(pawns) &^ pawns, gFrom()) && gTo() == gFrom() + shift)
//@   loop 1: modifies cnt, ms.allocIx, ms.data.*
//@
//@ func (generator).promoPushMoves
//@   props C01
//@   requires genOK(g, b)
//@   ensures [count] cnt == old(cnt) + b2i(sPromoPush(b, g.self, g.occ, fromMsk))
//@   modifies cnt, ms.allocIx, ms.data.*
//@   loop 1: invariant pawns & ^pre(pawns) == 0 && cnt == pre(cnt) + b2i(gPromo() && bit(pre(pawns) &^ pawns, gFrom()) && gTo() == gFrom() + shift)
//@   loop 2: unroll 4
//@   loop 1: modifies cnt, ms.allocIx, ms.data.*
//@
//@ func (generator).doublePushMoves
//@   props C01
//@   requires genOK(g, b)
//@   ensures [count] cnt == old(cnt) + b2i(sDouble(b, g.self, g.occ, fromMsk))
//@   modifies cnt, ms.allocIx, ms.data.*
//@   loop 1: invariant pawns & ^pre(pawns) == 0 && cnt == pre(cnt) + b2i(gPlain() && bit(pre(pawns) &^ pawns, gFrom()) && gTo() == gFrom() + 2*shift)
//@   loop 1: modifies cnt, ms.allocIx, ms.data.*
//@
//@ func (generator).pawnCaptureMoves
//@   props C01
//@   requires genOK(g, b)
//@   ensures [count] cnt == old(cnt) + b2i(sCapture(b, g.self, g.them))
//@   modifies cnt, ms.allocIx, ms.data.*
//@   loop 1: invariant pawns & ^pre(pawns) == 0 && cnt == pre(cnt) + b2i(gPlain() && bit(pre(pawns) &^ pawns, gFrom()) && bit(pawnAttSet(uint8(b.STM), sqbit(sq8(gFrom()))) & g.them, gTo()))
//@   loop 2: invariant tSqrs & ^pre(tSqrs) == 0 && onBoard(from) && cnt == pre(cnt) + b2i(gPlain() && gFrom() == from && bit(pre(tSqrs) &^ tSqrs, gTo()))
//@   loop 1: modifies cnt, ms.allocIx, ms.data.*
//@   loop 2: modifies cnt, ms.allocIx, ms.data.*
//@
//@ func (generator).pawnCapturePromoMoves
//@   props C01
//@   requires genOK(g, b)
//@   ensures [count] cnt == old(cnt) + b2i(sCapturePromo(b, g.self, g.them))
//@   modifies cnt, ms.allocIx, ms.data.*
//@   loop 1: invariant pawns & ^pre(pawns) == 0 && cnt == pre(cnt) + b2i(gPromo() && bit(pre(pawns) &^ pawns, gFrom()) && bit(pawnAttSet(uint8(b.STM), sqbit(sq8(gFrom()))) & g.them, gTo()))
//@   loop 2: invariant tSqrs & ^pre(tSqrs) == 0 && onBoard(from) && cnt == pre(cnt) + b2i(gPromo() && gFrom() == from && bit(pre(tSqrs) &^ tSqrs, gTo()))
//@   loop 3: unroll 4
//@   loop 1: modifies cnt, ms.allocIx, ms.data.*
//@   loop 2: modifies cnt, ms.allocIx, ms.data.*
//@
//@ func (generator).enPassant
//@   props C01
//@   requires genOK(g, b) && 0 <= b.EnPassant && b.EnPassant < 64
//@   ensures [count] cnt == old(cnt) + b2i(sEnPassant(b, g.self))
//@   modifies cnt, ms.allocIx, ms.data.*
//@   loop 1: invariant pawns & ^pre(pawns) == 0 && cnt == pre(cnt) + b2i(gPlain() && bit(pre(pawns) &^ pawns, gFrom()) && gTo() == b.EnPassant)
//@   loop 1: modifies cnt, ms.allocIx, ms.data.*
//@
//@ func (generator).shortCastle
//@   props C01
//@   requires genOK(g, b)
//@   ensures [count] cnt == old(cnt) + b2i(sShort(b, g.self, g.occ, rChkMsk))
//@   modifies cnt, ms.allocIx, ms.data.*
//@
//@ func (generator).longCastle
//@   props C01
//@   requires genOK(g, b)
//@   ensures [count] cnt == old(cnt) + b2i(sLong(b, g.self, g.occ, rChkMsk))
//@   modifies cnt, ms.allocIx, ms.data.*
//@
//@ define selfOf(b) = b.Colors[b.STM]
//@ define themOf(b) = b.Colors[b.STM^1]
//@ define occAll(b) = b.Colors[0] | b.Colors[1]
//@ define allSq() = BitBoard(0xffffffffffffffff)
//@ define noisySum(b) = b2i(sKing(b, selfOf(b), allSq(), themOf(b))) + b2i(sKnight(b, selfOf(b), allSq(), themOf(b))) + b2i(sBishop(b, selfOf(b), occAll(b), allSq(), themOf(b))) + b2i(sRook(b, selfOf(b), occAll(b), allSq(), themOf(b))) + b2i(sQueen(b, selfOf(b), occAll(b), allSq(), themOf(b))) + b2i(sPromoPush(b, selfOf(b), occAll(b), allSq())) + b2i(sCapture(b, selfOf(b), themOf(b))) + b2i(sCapturePromo(b, selfOf(b), themOf(b))) + b2i(sEnPassant(b, selfOf(b)))
//@ define quietSum(b) = b2i(sKing(b, selfOf(b), allSq(), ^themOf(b))) + b2i(sKnight(b, selfOf(b), allSq(), ^themOf(b))) + b2i(sBishop(b, selfOf(b), occAll(b), allSq(), ^themOf(b))) + b2i(sRook(b, selfOf(b), occAll(b), allSq(), ^themOf(b))) + b2i(sQueen(b, selfOf(b), occAll(b), allSq(), ^themOf(b))) + b2i(sSingle(b, selfOf(b), occAll(b), allSq())) + b2i(sDouble(b, selfOf(b), occAll(b), allSq())) + b2i(sShort(b, selfOf(b), occAll(b), allSq())) + b2i(sLong(b, selfOf(b), occAll(b), allSq()))
//@
//@ func GenNoisy
//@   props C01
//@   requires b.STM <= 1 && rightsOK(pos(b)) && onehot(b.Pieces[6] & b.Colors[b.STM]) && b.Pieces[1] & 0xff000000000000ff == 0 && 0 <= b.EnPassant && b.EnPassant < 64
//@   ensures [count] cnt == old(cnt) + noisySum(b)
//@   modifies cnt, ms.allocIx, ms.data.*
//@
//@ func GenNotNoisy
//@   props C01
//@   requires b.STM <= 1 && rightsOK(pos(b)) && onehot(b.Pieces[6] & b.Colors[b.STM]) && b.Pieces[1] & 0xff000000000000ff == 0 && onehot(b.Pieces[6] & b.Colors[b.STM]) && rightsOK(pos(b))
//@   ensures [count] cnt == old(cnt) + quietSum(b)
//@   modifies cnt, ms.allocIx, ms.data.*
//@
//@ # the slices partition the pseudo-legal moves of the rules: every encoding is emitted exactly once
//@ # if it is pseudo-legal and never otherwise
//@ lemma slicesArePseudo(b *Board)
//@   props C01
//@   hyp repOK(b) && validPos(pos(b))
//@   concl [partition] noisySum(b) + quietSum(b) == b2i(pseudo(pos(b), uint16(gm)))
//@
//@ # ---- `search` views
//@ func GenNoisy view search
//@   trusted frame only (proved in the main contract): fills the top frame of the move store
//@   modifies ms.allocIx, ms.data.*
//@
//@ func GenNotNoisy view search
//@   trusted frame only (proved in the main contract): fills the top frame of the move store
//@   modifies ms.allocIx, ms.data.*
//@
//@ # ---- `picker` views (C16): the generators append to the store and touch nothing else.  Justified
//@ # ---- mechanically by the scan below (every store in the generators' call tree happens inside
//@ # ---- move.(*Store).Alloc, which writes data[allocIx] and advances allocIx); the capacity of the
//@ # ---- store (2048 entries across all frames) is assumed sufficient.
//@ func GenNoisy view picker
//@   trusted append-only (scan `writes-only-via` on appendOnly below + Alloc's body); store capacity assumed
//@   ensures ms.allocIx >= old(ms.allocIx) && ms.allocIx <= len(ms.data)
//@   ensures implies(0 <= gi && gi < old(ms.allocIx), ms.data[gi] == old(ms.data[gi]))
//@   modifies ms.allocIx, ms.data.*
//@
//@ func GenNotNoisy view picker
//@   trusted append-only (scan `writes-only-via` on appendOnly below + Alloc's body); store capacity assumed
//@   ensures ms.allocIx >= old(ms.allocIx) && ms.allocIx <= len(ms.data)
//@   ensures implies(0 <= gi && gi < old(ms.allocIx), ms.data[gi] == old(ms.data[gi]))
//@   modifies ms.allocIx, ms.data.*
//@
//@ func GenNoisy view appendOnly
//@   props C16
//@   writes-only-via (*move.Store).Alloc
//@
//@ func GenNotNoisy view appendOnly
//@   props C16
//@   writes-only-via (*move.Store).Alloc
