//go:build verif

package board

// Comment-only contract file for the deductive verifier in /verif (see /verif/DESIGN.md).
// It contains no code; with the build tag off the file is not even compiled.
//
//@ import geom.smt2 rules.smt2
//@
//@ define onBoard(sq) = 0 <= sq && sq < 64
//@ define bitAt(bb, sq) = bit(bb, sq)
//@ define occOf(b) = b.Colors[0] | b.Colors[1]
//@ define pos(b) = mkPos(b.Pieces[1], b.Pieces[2], b.Pieces[3], b.Pieces[4], b.Pieces[5], b.Pieces[6], b.Colors[0], b.Colors[1], uint8(b.STM), uint8(b.EnPassant), uint8(b.Castles), uint8(b.FiftyCnt), uint64(b.fullMoves))
//@
//@ # representation invariant (property C04, second clause): the per-square piece map, the
//@ # per-piece-type sets and the per-colour sets describe one and the same placement
//@ define repOK(b) = b.Pieces[0] == 0 && wfPos(pos(b)) && each(i, 0, 63, uint8(b.SquaresToPiece[i]) == pieceAt(pos(b), uint8(i)))
//@
//@ # Zobrist fold of the placement: XOR over all squares of the key of the (colour, piece) standing there
//@ define zkey(colors, stp, i) = ite(bit(colors[0], i), piecesRand[0][stp[i]][i], 0) ^ ite(bit(colors[1], i), piecesRand[1][stp[i]][i], 0)
//@ define zplace(colors, stp) = xorall(i, 0, 63, zkey(colors, stp, i))
//@
//@ # the representation invariant instantiated at an arbitrary square (saves the solver a 64-way case split)
//@ lemma repInstance(b *Board, sq Square)
//@   props C02 C03 C04 C05
//@   split sq in 0..63
//@   hyp repOK(b) && onBoard(sq)
//@   concl uint8(b.SquaresToPiece[sq]) == pieceAt(pos(b), uint8(sq))
//@
//@ func (*Board).addPiece
//@   props C04
//@   requires c <= 1 && p <= 6 && onBoard(sq)
//@   requires p == 0 || !bitAt(occOf(b), sq)
//@   callers-inline fold delta
//@   split sq in 0..63
//@   split c in 0..1
//@   split p in 0..6
//@   ensures [rep]    implies(old(repOK(b)), repOK(b))
//@   ensures [delta]  result == ite(p == 0, 0, piecesRand[c][p][sq])
//@   ensures [fold]   zplace(b.Colors, b.SquaresToPiece) == old(zplace(b.Colors, b.SquaresToPiece)) ^ result
//@   ensures [colour] b.Colors[c] == ite(p == 0, old(b.Colors[c]), old(b.Colors[c]) | 1<<uint64(sq)) && b.Colors[c^1] == old(b.Colors[c^1])
//@   ensures [pieces] all(q, 1, 6, b.Pieces[q] == ite(p == q, old(b.Pieces[q]) | 1<<uint64(sq), old(b.Pieces[q])))
//@   modifies b.Colors, b.Pieces, b.SquaresToPiece
//@   nopanic
//@
//@ func (*Board).removePiece
//@   props C04
//@   requires c <= 1 && p <= 6 && onBoard(sq)
//@   callers-inline fold delta
//@   requires p == 0 || (b.SquaresToPiece[sq] == p && bitAt(b.Colors[c], sq) && !bitAt(b.Colors[c^1], sq))
//@   split sq in 0..63
//@   split c in 0..1
//@   split p in 0..6
//@   ensures [rep]    implies(old(repOK(b)), repOK(b))
//@   ensures [delta]  result == ite(p == 0, 0, piecesRand[c][p][sq])
//@   ensures [fold]   zplace(b.Colors, b.SquaresToPiece) == old(zplace(b.Colors, b.SquaresToPiece)) ^ result
//@   ensures [colour] b.Colors[c] == ite(p == 0, old(b.Colors[c]), old(b.Colors[c]) &^ (1<<uint64(sq))) && b.Colors[c^1] == old(b.Colors[c^1])
//@   ensures [pieces] all(q, 1, 6, b.Pieces[q] == ite(p == q, old(b.Pieces[q]) &^ (1<<uint64(sq)), old(b.Pieces[q])))
//@   modifies b.Colors, b.Pieces, b.SquaresToPiece
//@   nopanic
//@
//@ # ---- attack queries.  The code looks "backwards" from the target square; the specification
//@ # ---- (rules.smt2, attackedSet) is forward from the attackers.  The symmetry lemmas connect them.
//@ lemma kingSym(s Square, k BitBoard)
//@   props C01 C02 C05 C09
//@   hyp onBoard(s)
//@   concl (kingSet(sqbit(uint8(s))) & k != 0) == has(kingSet(k), uint8(s))
//@
//@ lemma knightSym(s Square, k BitBoard)
//@   props C01 C02 C05 C09
//@   hyp onBoard(s)
//@   concl (knightSet(sqbit(uint8(s))) & k != 0) == has(knightSet(k), uint8(s))
//@
//@ lemma rookSym(s Square, k BitBoard, occ BitBoard)
//@   props C01 C02 C05 C09
//@   hyp onBoard(s)
//@   concl (rookWalk(uint8(s), occ) & k != 0) == has(rookSet(k, occ), uint8(s))
//@
//@ lemma bishopSym(s Square, k BitBoard, occ BitBoard)
//@   props C01 C02 C05 C09
//@   hyp onBoard(s)
//@   concl (bishopWalk(uint8(s), occ) & k != 0) == has(bishopSet(k, occ), uint8(s))
//@
//@ define pieceAttacks(b, by, occ) = knightSet(b.Pieces[2] & b.Colors[by]) | kingSet(b.Pieces[6] & b.Colors[by]) | rookSet((b.Pieces[4] | b.Pieces[5]) & b.Colors[by], occ) | bishopSet((b.Pieces[3] | b.Pieces[5]) & b.Colors[by], occ)
//@
//@ func (*Board).IsAttacked
//@   props C01 C02 C05 C09
//@   requires by <= 1
//@   ensures [def] result == (attackedSet(pos(b), uint8(by), occ) & target != 0)
//@   modifies nothing
//@   nopanic
//@   use kingSym(target.LowestSet(), b.Pieces[6] & b.Colors[by]) at loop1
//@   use knightSym(target.LowestSet(), b.Pieces[2] & b.Colors[by]) at loop1
//@   use rookSym(target.LowestSet(), (b.Pieces[4] | b.Pieces[5]) & b.Colors[by], occ) at loop1
//@   use bishopSym(target.LowestSet(), (b.Pieces[3] | b.Pieces[5]) & b.Colors[by], occ) at loop1
//@   loop 1: invariant target & ^pre(target) == 0
//@   loop 1: invariant pieceAttacks(b, by, occ) & (pre(target) &^ target) == 0
//@
//@ func (*Board).InCheck
//@   props C01 C02 C05 C09
//@   requires who <= 1
//@   ensures [def] result == inCheck(pos(b), uint8(who))
//@   modifies nothing
//@   nopanic
//@
//@ define epPre(p, m) = validPos(p) && pseudo(p, m)
//@ define epAns(p, m) = existsLegalEP(p, m)
//@
//@ func (*Board).CanEnPassant
//@   props C02
//@   ghost from = to - 2*shifts[b.STM]
//@   ghost dp = mkMv(uint8(from), uint8(to))
//@   requires repOK(b) && lightPos(pos(b)) && onBoard(to) && onBoard(from) && isDouble(pos(b), dp) && movable(pos(b), dp)
//@   split b.STM in 0..1
//@   split to & 7 in 0..7
//@   timeout 120
//@   ensures [ep] implies(epPre(pos(b), dp), result == epAns(pos(b), dp))
//@   modifies nothing
//@   nopanic
//@   loop 1: unroll 2
//@
//@ ghost gi int
//@
//@ # full Zobrist hash of a position: placement fold, side to move, castling rights, e.p. file
//@ define zrights(c) = ite(bit(c, 0), castlingRand[0], 0) ^ ite(bit(c, 1), castlingRand[1], 0) ^ ite(bit(c, 2), castlingRand[2], 0) ^ ite(bit(c, 3), castlingRand[3], 0)
//@ define zhash(b) = zplace(b.Colors, b.SquaresToPiece) ^ ite(b.STM == 1, stmRand, 0) ^ zrights(b.Castles) ^ ite(b.EnPassant != 0, epFileRand[b.EnPassant & 7], 0)
//@ define hashOK(b) = len(b.hashes) >= 1 && b.hashes[len(b.hashes)-1] == zhash(b)
//@ define samePlacement(p, q) = pP(p) == pP(q) && pN(p) == pN(q) && pB(p) == pB(q) && pR(p) == pR(q) && pQ(p) == pQ(q) && pK(p) == pK(q) && cW(p) == cW(q) && cB(p) == cB(q)
//@
//@ func (*Board).MakeMove
//@   props C02 C04
//@   opaque zplace epPre epAns
//@   ghost p0 = pos(b)
//@   requires repOK(b) && lightPos(pos(b)) && movable(pos(b), m) && hashOK(b)
//@   requires 0 <= b.FiftyCnt
//@   use repInstance(b, m.From())
//@   use repInstance(b, m.To())
//@   use repInstance(b, Square(capSq(pos(b), uint16(m))))
//@   use repInstance(b, b.CaptureSq(m))
//@   ensures [placement*] samePlacement(pos(b), succ(p0, m))
//@   ensures [stm]       stm(pos(b)) == stm(succ(p0, m))
//@   ensures [castles]   cas(pos(b)) == cas(succ(p0, m))
//@   ensures [fifty]     fifty(pos(b)) == fifty(succ(p0, m))
//@   ensures [fiftyNoWrap] int64(b.FiftyCnt) == ite(pieceAt(p0, mvFrom(m)) == 1 || pieceAt(p0, capSq(p0, m)) != 0, 0, int64(old(b.FiftyCnt)) + 1)
//@   ensures [fullmoves] full(pos(b)) == full(succ(p0, m))
//@   ensures [rep*]       repOK(b)
//@   ensures [hash*]      hashOK(b)
//@   ensures [history]   len(b.hashes) == old(len(b.hashes)) + 1 && implies(0 <= gi && gi < old(len(b.hashes)), b.hashes[gi] == old(b.hashes[gi]))
//@   modifies b.*
//@   nopanic
//@
//@ lemma movableFromPseudo(p $Pos, m $Mv)
//@   props C02 C03 C04
//@   hyp validPos(p) && pseudo(p, m)
//@   concl [light]   lightPos(p)
//@   concl [movable] movable(p, m)
