//go:build verif

package board

// Comment-only contract file for the deductive verifier in /verif (see /verif/DESIGN.md).
// It contains no code; with the build tag off the file is not even compiled.
//
//@ import geom.smt2 rules.smt2
//@
//@ define onBoard(sq) = 0 <= sq && sq < 64
//@ define bitAt(bb, sq) = bit(bb, sq)
//@ define occB(b) = b.Colors[0] | b.Colors[1]
//@ define pos(b) = mkPos(b.Pieces[1], b.Pieces[2], b.Pieces[3], b.Pieces[4], b.Pieces[5], b.Pieces[6], b.Colors[0], b.Colors[1], uint8(b.STM), uint8(b.EnPassant), uint8(b.Castles), uint8(b.FiftyCnt), uint64(b.fullMoves))
//@
//@ # representation invariant (property C04, second clause): the per-square piece map, the
//@ # per-piece-type sets and the per-colour sets describe one and the same placement
//@ define repOK(b) = b.Pieces[0] == 0 && wfPos(pos(b)) && each(i, 0, 63, uint8(b.SquaresToPiece[i]) == pieceAt(pos(b), uint8(i)))
//@
//@ # Zobrist fold of the placement: XOR over all squares of the key of the (colour, piece) standing there
//@ define zkey(colors, stp, i) = ite(bit(colors[0], i), piecesRand[0][stp[i]][i], 0) ^ ite(bit(colors[1], i), piecesRand[1][stp[i]][i], 0)
//@ define zplace(colors, stp) = xorall(i, 0, 63, zkey(colors, stp, i))
//@
//@ # the representation invariant instantiated at an arbitrary square (saves the solver a 64-way case split)
//@ lemma repInstance(b *Board, sq Square)
//@   props C02 C03 C04 C05
//@   split sq in 0..63
//@   hyp repOK(b) && onBoard(sq)
//@   concl uint8(b.SquaresToPiece[sq]) == pieceAt(pos(b), uint8(sq))
//@
//@ func (*Board).addPiece
//@   props C04
//@   requires c <= 1 && p <= 6 && onBoard(sq)
//@   requires p == 0 || !bitAt(occB(b), sq)
//@   callers-inline fold delta
//@   split sq in 0..63
//@   split c in 0..1
//@   split p in 0..6
//@   ensures [rep]    implies(old(repOK(b)), repOK(b))
//@   ensures [delta]  result == ite(p == 0, 0, piecesRand[c][p][sq])
//@   ensures [fold]   zplace(b.Colors, b.SquaresToPiece) == old(zplace(b.Colors, b.SquaresToPiece)) ^ result
//@   ensures [colour] b.Colors[c] == ite(p == 0, old(b.Colors[c]), old(b.Colors[c]) | 1<<uint64(sq)) && b.Colors[c^1] == old(b.Colors[c^1])
//@   ensures [pieces] all(q, 1, 6, b.Pieces[q] == ite(p == q, old(b.Pieces[q]) | 1<<uint64(sq), old(b.Pieces[q])))
//@   modifies b.Colors, b.Pieces, b.SquaresToPiece
//@   nopanic
//@
//@ func (*Board).removePiece
//@   props C04
//@   requires c <= 1 && p <= 6 && onBoard(sq)
//@   callers-inline fold delta
//@   requires p == 0 || (b.SquaresToPiece[sq] == p && bitAt(b.Colors[c], sq) && !bitAt(b.Colors[c^1], sq))
//@   split sq in 0..63
//@   split c in 0..1
//@   split p in 0..6
//@   ensures [rep]    implies(old(repOK(b)), repOK(b))
//@   ensures [delta]  result == ite(p == 0, 0, piecesRand[c][p][sq])
//@   ensures [fold]   zplace(b.Colors, b.SquaresToPiece) == old(zplace(b.Colors, b.SquaresToPiece)) ^ result
//@   ensures [colour] b.Colors[c] == ite(p == 0, old(b.Colors[c]), old(b.Colors[c]) &^ (1<<uint64(sq))) && b.Colors[c^1] == old(b.Colors[c^1])
//@   ensures [pieces] all(q, 1, 6, b.Pieces[q] == ite(p == q, old(b.Pieces[q]) &^ (1<<uint64(sq)), old(b.Pieces[q])))
//@   modifies b.Colors, b.Pieces, b.SquaresToPiece
//@   nopanic
//@
//@ # ---- attack queries.  The code looks "backwards" from the target square; the specification
//@ # ---- (rules.smt2, attackedSet) is forward from the attackers.  The symmetry lemmas connect them.
//@ lemma kingSym(s Square, k BitBoard)
//@   props C01 C02 C05 C09
//@   hyp onBoard(s)
//@   concl (kingSet(sqbit(uint8(s))) & k != 0) == has(kingSet(k), uint8(s))
//@
//@ lemma knightSym(s Square, k BitBoard)
//@   props C01 C02 C05 C09
//@   hyp onBoard(s)
//@   concl (knightSet(sqbit(uint8(s))) & k != 0) == has(knightSet(k), uint8(s))
//@
//@ lemma rookSym(s Square, k BitBoard, occ BitBoard)
//@   props C01 C02 C05 C09
//@   hyp onBoard(s)
//@   concl (rookWalk(uint8(s), occ) & k != 0) == has(rookSet(k, occ), uint8(s))
//@
//@ lemma bishopSym(s Square, k BitBoard, occ BitBoard)
//@   props C01 C02 C05 C09
//@   hyp onBoard(s)
//@   concl (bishopWalk(uint8(s), occ) & k != 0) == has(bishopSet(k, occ), uint8(s))
//@
//@ define pieceAttacks(b, by, occ) = knightSet(b.Pieces[2] & b.Colors[by]) | kingSet(b.Pieces[6] & b.Colors[by]) | rookSet((b.Pieces[4] | b.Pieces[5]) & b.Colors[by], occ) | bishopSet((b.Pieces[3] | b.Pieces[5]) & b.Colors[by], occ)
//@
//@ func (*Board).IsAttacked
//@   props C01 C02 C05 C09
//@   requires by <= 1
//@   ensures [def] result == (attackedSet(pos(b), uint8(by), occ) & target != 0)
//@   modifies nothing
//@   nopanic
//@   use kingSym(target.LowestSet(), b.Pieces[6] & b.Colors[by]) at loop1
//@   use knightSym(target.LowestSet(), b.Pieces[2] & b.Colors[by]) at loop1
//@   use rookSym(target.LowestSet(), (b.Pieces[4] | b.Pieces[5]) & b.Colors[by], occ) at loop1
//@   use bishopSym(target.LowestSet(), (b.Pieces[3] | b.Pieces[5]) & b.Colors[by], occ) at loop1
//@   loop 1: invariant target & ^pre(target) == 0
//@   loop 1: invariant pieceAttacks(b, by, occ) & (pre(target) &^ target) == 0
//@
//@ func (*Board).InCheck
//@   props C01 C02 C05 C09
//@   requires who <= 1
//@   ensures [def] result == inCheck(pos(b), uint8(who))
//@   modifies nothing
//@   nopanic
//@
//@ define epPre(p, m) = validPos(p) && pseudo(p, m)
//@ define epAns(p, m) = existsLegalEP(p, m)
//@
//@ func (*Board).CanEnPassant
//@   props C01 C02 C10
//@   ghost from = to - 2*shifts[b.STM]
//@   ghost dp = mkMv(uint8(from), uint8(to))
//@   requires repOK(b) && lightPos(pos(b)) && onBoard(to) && onBoard(from) && isDouble(pos(b), dp) && movable(pos(b), dp)
//@   split b.STM in 0..1
//@   split to & 7 in 0..7
//@   timeout 120
//@   ensures [ep] implies(epPre(noClocks(pos(b)), dp), result == epAns(noClocks(pos(b)), dp))
//@   modifies nothing
//@   nopanic
//@   loop 1: unroll 2
//@
//@ ghost gi int
//@
//@ # full Zobrist hash of a position: placement fold, side to move, castling rights, e.p. file
//@ define zrights(c) = ite(bit(c, 0), castlingRand[0], 0) ^ ite(bit(c, 1), castlingRand[1], 0) ^ ite(bit(c, 2), castlingRand[2], 0) ^ ite(bit(c, 3), castlingRand[3], 0)
//@ define zhash(b) = zplace(b.Colors, b.SquaresToPiece) ^ ite(b.STM == 1, stmRand, 0) ^ zrights(b.Castles) ^ ite(b.EnPassant != 0, epFileRand[b.EnPassant & 7], 0)
//@ define hashOK(b) = len(b.hashes) >= 1 && b.hashes[len(b.hashes)-1] == zhash(b)
//@ define samePlacement(p, q) = pP(p) == pP(q) && pN(p) == pN(q) && pB(p) == pB(q) && pR(p) == pR(q) && pQ(p) == pQ(q) && pK(p) == pK(q) && cW(p) == cW(q) && cB(p) == cB(q)
//@
//@ func (*Board).MakeMove
//@   props C02 C04 C10
//@   timeout 600
//@   opaque zplace epPre epAns
//@   ghost p0 = pos(b)
//@   requires repOK(b) && lightPos(pos(b)) && movable(pos(b), m) && hashOK(b)
//@   requires 0 <= b.FiftyCnt
//@   use repInstance(b, m.From())
//@   use repInstance(b, m.To())
//@   use repInstance(b, Square(capSq(pos(b), uint16(m))))
//@   use repInstance(b, b.CaptureSq(m))
//@   # stepping stones for the hash clause: the side, rights and e.p. components of the key change by
//@   # exactly the terms the code XORs in (state-only facts, proved first, then available to `hash`)
//@   assert [hstm]    ite(b.STM == 1, stmRand, 0) == ite(old(b.STM) == 1, stmRand, 0) ^ stmRand
//@   assert [hrights] zrights(b.Castles) == zrights(old(b.Castles)) ^ zrights(b.Castles ^ old(b.Castles))
//@   assert [hmask]   zrights(b.Castles ^ old(b.Castles)) == (castlingRand[0] & hashEnable[((b.Castles ^ old(b.Castles)) >> 0) & 1]) ^ (castlingRand[1] & hashEnable[((b.Castles ^ old(b.Castles)) >> 1) & 1]) ^ (castlingRand[2] & hashEnable[((b.Castles ^ old(b.Castles)) >> 2) & 1]) ^ (castlingRand[3] & hashEnable[((b.Castles ^ old(b.Castles)) >> 3) & 1])
//@   ensures [placement] samePlacement(pos(b), succ(p0, m))
//@   ensures [stm]       stm(pos(b)) == stm(succ(p0, m))
//@   ensures [castles]   cas(pos(b)) == cas(succ(p0, m))
//@   ensures [fifty]     fifty(pos(b)) == fifty(succ(p0, m))
//@   ensures [fiftyNoWrap] int64(b.FiftyCnt) == ite(pieceAt(p0, mvFrom(m)) == 1 || pieceAt(p0, capSq(p0, m)) != 0, 0, int64(old(b.FiftyCnt)) + 1)
//@   ensures [fullmoves] full(pos(b)) == full(succ(p0, m))
//@   ensures [ep]        implies(epPre(noClocks(p0), uint16(m)) && mvPromo(uint16(m)) == 0, uint8(b.EnPassant) == ite(isDouble(p0, uint16(m)) && epAns(noClocks(p0), uint16(m)), midSq(uint16(m)), 0))
//@   ensures [rep]       repOK(b)
//@   ensures [hash]      hashOK(b)
//@   ensures [history]   len(b.hashes) == old(len(b.hashes)) + 1 && implies(0 <= gi && gi < old(len(b.hashes)), b.hashes[gi] == old(b.hashes[gi]))
//@   modifies b.*
//@   nopanic
//@
//@ lemma movableFromPseudo(p $Pos, m $Mv)
//@   props C02 C03 C04
//@   hyp validPos(p) && pseudo(p, m)
//@   concl [light]   lightPos(p)
//@   concl [movable] movable(p, m)
//@
//@ # ---- legal moves preserve validity: chains of moves (game histories) stay inside the quantifier of
//@ # ---- the per-move properties (C01, C02, C10 ...), by induction over the history
//@ lemma validPreserved(p $Pos, m $Mv)
//@   props C01 C02
//@   timeout 600
//@   split pieceAt(p, mvFrom(m)) in 1..6
//@   hyp validPos(p) && legal(p, m)
//@   concl [wf]     wfPos(succ(p, m))
//@   concl [kings]  onehot(kingOf(succ(p, m), 0)) && onehot(kingOf(succ(p, m), 1))
//@   concl [pawns]  pP(succ(p, m)) & (rank1 | rank8) == 0
//@   concl [safe]   !inCheck(succ(p, m), other(stm(succ(p, m))))
//@   concl [rights] rightsOK(succ(p, m))
//@   concl [ep]     epOK(succ(p, m))
//@
//@ # ---- C10: a position cannot recur two plies later (each side has made one move: the first mover's
//@ # ---- piece has left its square and cannot have come back), so skipping distance 2 loses nothing;
//@ # ---- entries at odd distances have the other side to move (MakeMove#post.stm)
//@ lemma noRecurrenceAtTwo(p $Pos, m1 $Mv, m2 $Mv)
//@   props C10
//@   timeout 600
//@   split pieceAt(p, mvFrom(m1)) in 1..6
//@   hyp validPos(p) && legal(p, m1) && legal(succ(p, m1), m2)
//@   concl !samePlacement(succ(succ(p, m1), m2), p)
//@
//@ # ---- C05: the pseudo-legality test accepts exactly the rule-defined pseudo-legal encodings
//@ func (*Board).IsPseudoLegal
//@   props C05 C16
//@   requires repOK(b) && validPos(pos(b)) && m < 1<<15
//@   use repInstance(b, m.From())
//@   use repInstance(b, m.To())
//@   ensures [iff] result == pseudo(pos(b), uint16(m))
//@   modifies nothing
//@   nopanic
//@
//@ # ---- C10: repetition count
//@ import count.smt2
//@ axiom occUnfold(a $HashArr, t Hash, i int)
//@   concl occUnfoldOK(a, t, uint64(i))
//@ axiom occRange(a $HashArr, t Hash, i int)
//@   hyp i < 1<<40
//@   concl occRangeOK(a, t, uint64(i))
//@
//@ func (*Board).Threefold
//@   props C10
//@   requires len(b.hashes) < 1<<40
//@   ensures [count] implies(len(b.hashes) > 0, int64(result) == min(3, 1 + occCount(arr(b.hashes), b.hashes[len(b.hashes)-1], uint64(len(b.hashes) - 5))))
//@   ensures [empty] implies(len(b.hashes) == 0, result == 1)
//@   modifies nothing
//@   nopanic
//@   use occUnfold(arr(b.hashes), hash, ix) at loop1
//@   use occRange(arr(b.hashes), hash, ix) at loop1
//@   use occRange(arr(b.hashes), hash, ix - 2) at loop1
//@   loop 1: invariant -4 <= ix && ix <= len(b.hashes) - 5 && 1 <= cnt && cnt <= 2 && hash == b.hashes[len(b.hashes)-1]
//@   loop 1: invariant uint64(cnt) - 1 + occCount(arr(b.hashes), hash, uint64(ix)) == occCount(arr(b.hashes), hash, uint64(len(b.hashes) - 5))
//@
//@ # ---- null moves (C03, C04)
//@ func (*Board).MakeNullMove
//@   props C03 C04
//@   requires repOK(b) && hashOK(b)
//@   ensures [state]   b.STM == old(b.STM) ^ 1 && b.EnPassant == 0 && b.Castles == old(b.Castles) && b.FiftyCnt == old(b.FiftyCnt) && b.fullMoves == old(b.fullMoves)
//@   ensures [place]   b.Colors == old(b.Colors) && b.Pieces == old(b.Pieces) && b.SquaresToPiece == old(b.SquaresToPiece)
//@   ensures [token]   Square((uint64(result) >> 12) & 63) == old(b.EnPassant)
//@   ensures [hash]    hashOK(b)
//@   ensures [history] len(b.hashes) == old(len(b.hashes)) + 1 && implies(0 <= gi && gi < old(len(b.hashes)), b.hashes[gi] == old(b.hashes[gi]))
//@   modifies b.*
//@   nopanic
//@
//@ scenario nullMoveRoundTrip(b *Board)
//@   props C03
//@   requires repOK(b) && len(b.hashes) >= 1
//@   do r := inline b.MakeNullMove()
//@   do inline b.UndoNullMove(r)
//@   ensures [pos]     pos(b) == old(pos(b))
//@   ensures [stp]     b.SquaresToPiece == old(b.SquaresToPiece) && b.Pieces[0] == old(b.Pieces[0])
//@   ensures [history] len(b.hashes) == old(len(b.hashes)) && implies(0 <= gi && gi < len(b.hashes), b.hashes[gi] == old(b.hashes[gi]))
//@
//@ # ---- hash from scratch (C04)
//@ define zmask(b, c, mask) = xorall(i, 0, 63, ite(bit(mask, i), piecesRand[c][b.SquaresToPiece[i]][i], 0))
//@
//@ lemma zmaskStep(b *Board, c Color, done BitBoard, sq Square)
//@   props C04
//@   split sq in 0..63
//@   hyp c <= 1 && onBoard(sq) && !bit(done, sq)
//@   concl zmask(b, c, done | 1<<uint64(sq)) == zmask(b, c, done) ^ piecesRand[c][b.SquaresToPiece[sq]][sq]
//@
//@ lemma zmaskSplit(b *Board)
//@   props C04
//@   concl zplace(b.Colors, b.SquaresToPiece) == zmask(b, Color(0), b.Colors[0]) ^ zmask(b, Color(1), b.Colors[1])
//@
//@ lemma zmaskEmpty(b *Board, c Color)
//@   props C04
//@   hyp c <= 1
//@   concl zmask(b, c, BitBoard(0)) == 0
//@
//@ func (Board).calculateHash
//@   props C04
//@   opaque zmask zplace
//@   requires b.STM <= 1 && 0 <= b.EnPassant && b.EnPassant < 64 && all(i, 0, 63, b.SquaresToPiece[i] <= 6)
//@   use zmaskEmpty(b, 0) at entry
//@   use zmaskEmpty(b, 1) at entry
//@   ensures [zhash] result == zhash(b)
//@   modifies nothing
//@   nopanic
//@   use zmaskSplit(b) at exit
//@   use zmaskStep(b, color, b.Colors[color] &^ occ, occ.LowestSet()) at loop2
//@   loop 1: unroll 2
//@   loop 2: invariant color <= 1 && occ & ^b.Colors[color] == 0 && hash == pre(hash) ^ zmask(b, color, b.Colors[color] &^ occ)
//@   loop 3: unroll 4
//@
//@ func (*Board).ResetHash
//@   props C04 C10
//@   requires b.STM <= 1 && 0 <= b.EnPassant && b.EnPassant < 64 && all(i, 0, 63, b.SquaresToPiece[i] <= 6)
//@   ensures [single] len(b.hashes) == 1 && b.hashes[0] == zhash(b)
//@   modifies b.hashes
//@   nopanic
//@
//@ # ---- C03: undoing a move restores everything.  Both bodies are executed in sequence on a symbolic
//@ # ---- board; the token r is whatever MakeMove produced.
//@ # for the round trip the values of the e.p. capturability test and of the previous hash are immaterial
//@ func (*Board).CanEnPassant view roundtrip
//@   trusted read-only (frame proved in the main contract); the result is left arbitrary
//@   modifies nothing
//@
//@ func (*Board).Hash view roundtrip
//@   trusted read-only (frame proved in the main contract); the result is left arbitrary
//@   requires len(b.hashes) >= 1
//@   modifies nothing
//@
//@ scenario makeUndo(b *Board, m move.Move)
//@   props C03
//@   views roundtrip
//@   split b.SquaresToPiece[m.From()] in 1..6
//@   split b.SquaresToPiece[b.CaptureSq(m)] in 0..6
//@   requires repOK(b) && lightPos(pos(b)) && movable(pos(b), uint16(m)) && len(b.hashes) >= 1
//@   use repInstance(b, m.From())
//@   use repInstance(b, m.To())
//@   use repInstance(b, b.CaptureSq(m))
//@   do r := inline b.MakeMove(m)
//@   do inline b.UndoMove(m, r)
//@   ensures [placement] samePlacement(pos(b), old(pos(b)))
//@   ensures [state]     b.STM == old(b.STM) && b.EnPassant == old(b.EnPassant) && b.Castles == old(b.Castles) && b.FiftyCnt == old(b.FiftyCnt) && b.fullMoves == old(b.fullMoves)
//@   ensures [stp]      b.SquaresToPiece == old(b.SquaresToPiece) && b.Pieces[0] == old(b.Pieces[0])
//@   ensures [history]   len(b.hashes) == old(len(b.hashes)) && implies(0 <= gi && gi < len(b.hashes), b.hashes[gi] == old(b.hashes[gi]))
//@
//@ lemma clocksIrrelevant(p $Pos, m $Mv)
//@   props C02
//@   concl validPos(noClocks(p)) == validPos(p) && pseudo(noClocks(p), m) == pseudo(p, m) && existsLegalEP(noClocks(p), m) == existsLegalEP(p, m)
//@
//@ # the e.p. field of the successor position is, by definition, the midpoint of a double push iff a legal e.p. capture exists
//@ lemma succEpField(p $Pos, m $Mv)
//@   props C02
//@   hyp validPos(p) && pseudo(p, m)
//@   concl ep(succ(p, m)) == ite(isDouble(p, m) && existsLegalEP(p, m), midSq(m), 0) && implies(isDouble(p, m), mvPromo(m) == 0)
//@
//@ # the undo token: every field read back is the value stored, in MakeMove's order of the setters
//@ scenario tokenRoundTrip(r *Reverse, fc Depth, cc Castles, ep Square, cp Piece)
//@   props C03
//@   requires *r == 0 && cc < 16 && 0 <= ep && ep < 64 && cp <= 6
//@   do inline r.setFiftyCnt(fc)
//@   do inline r.setCastlingChange(cc)
//@   do inline r.setCapture(cp)
//@   do inline r.setEnPassantChange(ep)
//@   ensures [fields] r.fiftyCnt() == fc && r.castlingChange() == cc && r.capture() == cp && r.enPassantChange() == ep
//@
//@ # ---- the legality filter used by perft and the search: make the move, test the mover's king
//@ scenario legalityFilter(b *Board, m move.Move)
//@   props C01 C06
//@   ghost p0 = pos(b)
//@   requires repOK(b) && validPos(pos(b)) && pseudo(pos(b), uint16(m)) && hashOK(b) && 0 <= b.FiftyCnt
//@   use movableFromPseudo(pos(b), uint16(m))
//@   do r := b.MakeMove(m)
//@   ensures [filter] b.InCheck(old(b.STM)) == !kingSafeAfter(p0, uint16(m))
//@   ensures [legal]  legal(p0, uint16(m)) == !b.InCheck(old(b.STM))
//@
//@ # ---- the `search` views: abstract contracts used when verifying the search (C06, C07, C08).
//@ # ---- bs(b) is the tuple of all scalar attributes of the board; mkS/tokS/unmkS are the functions
//@ # ---- computed by MakeMove and UndoMove; the round-trip axiom in search.smt2 is property C03.
//@ define bs(b) = mkBS(b.SquaresToPiece[0], b.SquaresToPiece[1], b.SquaresToPiece[2], b.SquaresToPiece[3], b.SquaresToPiece[4], b.SquaresToPiece[5], b.SquaresToPiece[6], b.SquaresToPiece[7], b.SquaresToPiece[8], b.SquaresToPiece[9], b.SquaresToPiece[10], b.SquaresToPiece[11], b.SquaresToPiece[12], b.SquaresToPiece[13], b.SquaresToPiece[14], b.SquaresToPiece[15], b.SquaresToPiece[16], b.SquaresToPiece[17], b.SquaresToPiece[18], b.SquaresToPiece[19], b.SquaresToPiece[20], b.SquaresToPiece[21], b.SquaresToPiece[22], b.SquaresToPiece[23], b.SquaresToPiece[24], b.SquaresToPiece[25], b.SquaresToPiece[26], b.SquaresToPiece[27], b.SquaresToPiece[28], b.SquaresToPiece[29], b.SquaresToPiece[30], b.SquaresToPiece[31], b.SquaresToPiece[32], b.SquaresToPiece[33], b.SquaresToPiece[34], b.SquaresToPiece[35], b.SquaresToPiece[36], b.SquaresToPiece[37], b.SquaresToPiece[38], b.SquaresToPiece[39], b.SquaresToPiece[40], b.SquaresToPiece[41], b.SquaresToPiece[42], b.SquaresToPiece[43], b.SquaresToPiece[44], b.SquaresToPiece[45], b.SquaresToPiece[46], b.SquaresToPiece[47], b.SquaresToPiece[48], b.SquaresToPiece[49], b.SquaresToPiece[50], b.SquaresToPiece[51], b.SquaresToPiece[52], b.SquaresToPiece[53], b.SquaresToPiece[54], b.SquaresToPiece[55], b.SquaresToPiece[56], b.SquaresToPiece[57], b.SquaresToPiece[58], b.SquaresToPiece[59], b.SquaresToPiece[60], b.SquaresToPiece[61], b.SquaresToPiece[62], b.SquaresToPiece[63], b.Pieces[0], b.Pieces[1], b.Pieces[2], b.Pieces[3], b.Pieces[4], b.Pieces[5], b.Pieces[6], b.Colors[0], b.Colors[1], uint64(len(b.hashes)), uint64(b.fullMoves), uint8(b.STM), uint8(b.EnPassant), uint8(b.Castles), uint8(b.FiftyCnt))
//@ define histKept(b) = implies(0 <= gi && gi < old(len(b.hashes)) && gi < len(b.hashes), b.hashes[gi] == old(b.hashes[gi]))
//@
//@ func (*Board).MakeMove view search
//@   trusted definition of mkS/tokS (post-state and token are functions of pre-state and move); the round-trip instance unmkS(mkS(s,m),m,tokS(s,m)) == s is property C03 (scenario board.makeUndo)
//@   ensures bs(b) == mkS(old(bs(b)), uint16(m)) && uint64(result) == tokS(old(bs(b)), uint16(m))
//@   ensures unmkS(mkS(old(bs(b)), uint16(m)), uint16(m), tokS(old(bs(b)), uint16(m))) == old(bs(b))
//@   ensures len(b.hashes) == old(len(b.hashes)) + 1
//@   ensures histKept(b)
//@   modifies b.*
//@
//@ func (*Board).UndoMove view search
//@   trusted definition of unmkS; that it inverts mkS is scenario board.makeUndo (C03)
//@   requires len(b.hashes) >= 1
//@   ensures bs(b) == unmkS(old(bs(b)), uint16(m), uint64(r))
//@   ensures histKept(b)
//@   modifies b.*
//@
//@ func (*Board).MakeNullMove view search
//@   trusted definition of nullS/nullTok; the round-trip instance is scenario board.nullMoveRoundTrip (C03)
//@   ensures bs(b) == nullS(old(bs(b))) && uint64(result) == nullTok(old(bs(b)))
//@   ensures unnullS(nullS(old(bs(b))), nullTok(old(bs(b)))) == old(bs(b))
//@   ensures len(b.hashes) == old(len(b.hashes)) + 1
//@   ensures histKept(b)
//@   modifies b.*
//@
//@ func (*Board).UndoNullMove view search
//@   trusted definition of unnullS; that it inverts nullS is scenario board.nullMoveRoundTrip (C03)
//@   requires len(b.hashes) >= 1
//@   ensures bs(b) == unnullS(old(bs(b)), uint64(r))
//@   ensures histKept(b)
//@   modifies b.*
//@
//@ func (*Board).InCheck view search
//@   trusted read-only (proved: modifies nothing in the main contract)
//@   modifies nothing
//@
//@ func (*Board).Threefold view search
//@   trusted read-only; result range proved in the main contract
//@   ensures 1 <= result && result <= 3
//@   modifies nothing
//@
//@ func (*Board).IsCheckmate view search
//@   trusted read-only (frame by inspection: no stores)
//@   modifies nothing
//@
//@ func (*Board).IsStalemate view search
//@   trusted read-only (frame by inspection: no stores)
//@   modifies nothing
//@
//@ func (*Board).Hash view search
//@   trusted read-only
//@   modifies nothing
//@
//@ # ---- C11 (robustness): parsing arbitrary bytes never panics.  Every field parser is checked for all
//@ # ---- byte strings and cursor positions; seq calls them through function values under the callback
//@ # ---- contract below (cursor stays non-negative, length field stays the slice length).
//@ define fpOK(fp) = fp.l == len(fp.fen) && 0 <= fp.ix
//@
//@ func (*fenParser).position
//@   props C11
//@   allow-extern fmt. errors.
//@   requires fpOK(fp) && fp.ix <= fp.l
//@   ensures [cursor] fpOK(fp) && fp.ix >= old(fp.ix)
//@   modifies fp.ix, fp.b.*
//@   nopanic
//@   loop 1: invariant fpOK(fp) && fp.ix >= pre(fp.ix) && fp.ix <= fp.l && -1 <= rank && rank <= 7
//@   loop 1: modifies fp.ix, fp.b.*
//@
//@ func (*fenParser).stm
//@   props C11
//@   requires fpOK(fp) && fp.ix < fp.l
//@   ensures [cursor] fpOK(fp) && fp.ix >= old(fp.ix)
//@   modifies fp.ix, fp.b.*
//@   allow-extern fmt. errors.
//@   nopanic
//@
//@ func (*fenParser).cRights
//@   props C11
//@   requires fpOK(fp) && fp.ix < fp.l
//@   ensures [cursor] fpOK(fp) && fp.ix >= old(fp.ix)
//@   modifies fp.ix, fp.b.*
//@   allow-extern fmt. errors.
//@   nopanic
//@   loop 1: invariant fpOK(fp) && fp.ix >= pre(fp.ix)
//@   loop 1: modifies fp.ix, fp.b.*
//@
//@ func (*fenParser).enPassant
//@   props C11
//@   requires fpOK(fp) && fp.ix < fp.l
//@   ensures [cursor] fpOK(fp) && fp.ix >= old(fp.ix)
//@   modifies fp.ix, fp.b.*
//@   allow-extern fmt. errors.
//@   nopanic
//@
//@ func (*fenParser).counter
//@   props C11
//@   requires fpOK(fp) && fp.ix < fp.l
//@   ensures [cursor] fpOK(fp) && fp.ix >= old(fp.ix)
//@   modifies fp.ix
//@   allow-extern fmt. errors.
//@   nopanic
//@   loop 1: invariant fpOK(fp) && fp.ix >= pre(fp.ix)
//@   loop 1: modifies fp.ix
//@
//@ func (*fenParser).fifty
//@   props C11
//@   requires fpOK(fp) && fp.ix < fp.l
//@   ensures [cursor] fpOK(fp) && fp.ix >= old(fp.ix)
//@   ensures [range]  0 <= fp.b.FiftyCnt && fp.b.FiftyCnt <= 100 || fp.b.FiftyCnt == old(fp.b.FiftyCnt)
//@   modifies fp.ix, fp.b.*
//@   allow-extern fmt. errors.
//@   nopanic
//@
//@ func (*fenParser).fullMoves
//@   props C11
//@   requires fpOK(fp) && fp.ix < fp.l
//@   ensures [cursor] fpOK(fp) && fp.ix >= old(fp.ix)
//@   modifies fp.ix, fp.b.*
//@   allow-extern fmt. errors.
//@   nopanic
//@
//@ # ParseFEN starts from an all-zero board, so nothing of a re-used board's previous content (rights,
//@ # e.p. target, counters, placement, history) can survive into the parsed position
//@ func ParseFEN
//@   props C11
//@   allow-extern fmt. errors.
//@   at-call seq requires [fresh] b.EnPassant == 0 && b.Castles == 0 && b.STM == 0 && b.FiftyCnt == 0 && b.fullMoves == 0 && all(k, 0, 6, b.Pieces[k] == 0) && b.Colors[0] == 0 && b.Colors[1] == 0 && all(i, 0, 63, b.SquaresToPiece[i] == 0) && len(b.hashes) == 0
//@   nopanic
//@
//@ func (*fenParser).seq
//@   props C11
//@   requires fpOK(fp) && fp.ix <= fp.l
//@   callback-requires fpOK(fp) && fp.ix <= fp.l && (iter(1) == -1 || fp.ix < fp.l)
//@   callback-modifies fp.ix, fp.b.*
//@   callback-ensures fpOK(fp)
//@   allow-extern fmt. errors.
//@   nopanic
//@   loop 1: invariant fpOK(fp) && -1 <= iter(1) && iter(1) < len(parsers) && (iter(1) >= 0 || (first && fp.ix <= fp.l)) && (iter(1) < 0 || !first)
//@   loop 1: modifies fp.ix, fp.b.*
//@   loop 2: invariant fpOK(fp)
//@   loop 2: modifies fp.ix
//@
//@ # ---- C11 (printer): the castling field of Board.FEN() prints exactly the letters of the rights held, in
//@ # ---- the order KQkq, and a dash exactly for an empty rights field and for an empty e.p. field.  The sites
//@ # ---- are named by the text they write, so the contract does not depend on their order in the source.
//@ ghost gfl uint8
//@ ghost gfd int
//@ func (Board).FEN
//@   props C11
//@   allow-extern fmt. strings. strconv.
//@   requires gfl == 0 && gfd == 0 && b.STM <= 1 && b.Castles <= 15 && all(i, 0, 63, b.SquaresToPiece[i] <= 6)
//@   at-call WriteString="K" requires [K] b.Castles & 1 != 0 && gfl == 0
//@   at-call WriteString="K" sets gfl = gfl | 1
//@   at-call WriteString="Q" requires [Q] b.Castles & 2 != 0 && gfl & 14 == 0
//@   at-call WriteString="Q" sets gfl = gfl | 2
//@   at-call WriteString="k" requires [k] b.Castles & 4 != 0 && gfl & 12 == 0
//@   at-call WriteString="k" sets gfl = gfl | 4
//@   at-call WriteString="q" requires [q] b.Castles & 8 != 0 && gfl & 8 == 0
//@   at-call WriteString="q" sets gfl = gfl | 8
//@   at-call WriteString="-" requires [dash] (b.Castles == 0 && gfd == 0) || b.EnPassant == 0
//@   at-call WriteString="-" sets gfd = gfd + 1
//@   at-call WriteByte requires [piece] p == b.SquaresToPiece[sq] && p != 0 && int(sq) == rank * 8 + file && (c == 0) == (b.Colors[0] & (1 << sq) != 0)
//@   ensures [rights] gfl == uint8(b.Castles)
//@   ensures [dashes] gfd == ite(b.Castles == 0, 1, 0) + ite(b.EnPassant == 0, 1, 0)
//@   modifies gfl, gfd
//@   nopanic
//@   loop 1: invariant gfl == 0 && gfd == 0 && -1 <= rank && rank <= 7
//@   loop 1: modifies sb
//@   loop 2: invariant gfl == 0 && gfd == 0 && 0 <= rank && rank <= 7 && 0 <= iter(2) && iter(2) <= 7
//@   loop 2: modifies sb
//@
//@ # ---- C11 (gate): the piece-count filter applied by `position fen` never rejects material that is
//@ # ---- reachable by promotion (one king; promoted pieces are paid for by missing pawns)
//@ define cntOf(b, c, p) = (b.Colors[c] & b.Pieces[p]).Count()
//@ define extra(n, base) = max(n, base) - base
//@ define reachableMaterial(b, c) = onehot(b.Colors[c] & b.Pieces[6]) && cntOf(b, c, 1) + extra(cntOf(b, c, 2), 2) + extra(cntOf(b, c, 3), 2) + extra(cntOf(b, c, 4), 2) + extra(cntOf(b, c, 5), 1) <= 8
//@
//@ func (Board).InvalidPieceCount
//@   props C11
//@   opaque popcnt64
//@   callers-inline
//@   ensures [accepts] implies(reachableMaterial(b, 0) && reachableMaterial(b, 1), !result)
//@   modifies nothing
//@   nopanic
//@   loop 1: unroll 2
//@
//@ # ---- contracts of the constructors as seen by the UCI driver (C11 gate)
//@ func FromFEN view uci
//@   trusted the parser's own contracts are C11 (robustness); here only: a board is returned iff no error
//@   ensures implies(result1 == nil, result0 != nil)
//@   modifies nothing
//@
//@ func StartPos view uci
//@   trusted the start position is a parsed constant; its material passes the piece-count gate (TestFENConversion covers it)
//@   ensures result != nil && !body(result.InvalidPieceCount())
//@   modifies nothing
//@
//@ # ---- C09: the direct stalemate test.  Soundness: if it answers true, an arbitrary move gm is not legal.
//@ define gmv() = uint16(gm)
//@ define gmFrom() = Square((gm >> 6) & 63)
//@ define epNormalised(p) = epNormal(p)
//@
//@ define notA() = BitBoard(0xfefefefefefefefe)
//@ define notH() = BitBoard(0x7f7f7f7f7f7f7f7f)
//@ define wcSet(pawns, opp) = (((pawns & notA()) << 7) | ((pawns & notH()) << 9)) & opp
//@ define wcTo(pawns, opp) = wcSet(pawns, opp).LowestSet()
//@ define wcFrom(pawns, opp) = ite(bit((pawns & notA()) << 7, wcTo(pawns, opp)), wcTo(pawns, opp) - 7, wcTo(pawns, opp) - 9)
//@ define bcSet(pawns, opp) = (((pawns & notH()) >> 7) | ((pawns & notA()) >> 9)) & opp
//@ define bcTo(pawns, opp) = bcSet(pawns, opp).LowestSet()
//@ define bcFrom(pawns, opp) = ite(bit((pawns & notH()) >> 7, bcTo(pawns, opp)), bcTo(pawns, opp) + 7, bcTo(pawns, opp) + 9)
//@
//@ # the first occupied square on the ray from s away from k (the pinner, when s is pinned to k)
//@ define beyond(k, s, occ) = (walkDir(uint8(s), occ, sgn8(fileOf(uint8(k)), fileOf(uint8(s))), sgn8(rankOf(uint8(k)), rankOf(uint8(s)))) & occ).LowestSet()
//@
//@ lemma castleNeedsStep(p $Pos, m $Mv)
//@   props C09
//@   hyp validPos(p) && isCastle(p, m) && legal(p, m)
//@   concl legal(p, mkMv(mvFrom(m), midSq(m)))
//@
//@ func (*Board).IsStalemate
//@   props C09
//@   use castleNeedsStep(pos(b), gmv()) at exit
//@   requires repOK(b) && validPos(pos(b)) && !inCheck(pos(b), uint8(b.STM)) && epNormalised(pos(b))
//@   ensures [sound] implies(result, !legal(pos(b), gmv()))
//@   modifies nothing
//@   nopanic
//@   timeout 600
//@   # completeness: every `return false` names a legal move (witness)
//@   at-return 1 requires [witness1*] legal(pos(b), witMove(pos(b), uint8((((pawns << 8) &^ occ) >> 8).LowestSet()), uint8((((pawns << 8) &^ occ) >> 8).LowestSet() + 8)))
//@   at-return 2 requires [witness2*] legal(pos(b), witMove(pos(b), uint8(wcFrom(pawns, opp)), uint8(wcTo(pawns, opp))))
//@   at-return 3 requires [witness3*] legal(pos(b), witMove(pos(b), uint8((((pawns >> 8) &^ occ) << 8).LowestSet()), uint8((((pawns >> 8) &^ occ) << 8).LowestSet() - 8)))
//@   at-return 4 requires [witness4*] legal(pos(b), witMove(pos(b), uint8(bcFrom(pawns, opp)), uint8(bcTo(pawns, opp))))
//@   at-return 5 requires [witness5*] legal(pos(b), mkMv(uint8(sq), uint8(((bishopWalk(uint8(sq), occ) | rookWalk(uint8(sq), occ)) &^ me).LowestSet()))) || legal(pos(b), mkMv(uint8(sq), uint8(beyond(kingSq, sq, occ))))
//@   at-return 6 requires [witness6*] legal(pos(b), mkMv(uint8(sq), uint8((bishopWalk(uint8(sq), nocc) &^ me).LowestSet()))) || legal(pos(b), mkMv(uint8(sq), uint8(beyond(kingSq, sq, occ))))
//@   at-return 7 requires [witness7*] legal(pos(b), mkMv(uint8(sq), uint8((rookWalk(uint8(sq), nocc) &^ me).LowestSet()))) || legal(pos(b), mkMv(uint8(sq), uint8(beyond(kingSq, sq, occ))))
//@   at-return 8 requires [witness8*] legal(pos(b), mkMv(uint8(sq), uint8((knightSet(sqbit(uint8(sq))) &^ me).LowestSet())))
//@   at-return 9 requires [witness9*] legal(pos(b), mkMv(uint8(kingSq), uint8(kMove.LowestSet())))
//@   at-return 10 requires [witness10*] legal(pos(b), witMove(pos(b), uint8(piece.LowestSet()), uint8(targets.LowestSet())))
//@   at-return 11 requires [witness11*] legal(pos(b), witMove(pos(b), uint8(piece.LowestSet()), uint8(targets.LowestSet()))) || legal(pos(b), witMove(pos(b), uint8(piece.LowestSet()), uint8((targets & (targets - 1)).LowestSet())))
//@   at-return 12 requires [witness12*] legal(pos(b), mkMv(uint8(pawn.LowestSet()), uint8(b.EnPassant)))
//@   loop 1: invariant pieces & ^pre(pieces) == 0 && implies(bit(pre(pieces) &^ pieces, gmFrom()), !legal(pos(b), gmv()))
//@   loop 2: invariant pieces & ^pre(pieces) == 0 && implies(bit(pre(pieces) &^ pieces, gmFrom()), !legal(pos(b), gmv()))
//@   loop 3: invariant pieces & ^pre(pieces) == 0 && implies(bit(pre(pieces) &^ pieces, gmFrom()), !legal(pos(b), gmv()))
//@   loop 4: invariant pieces & ^pre(pieces) == 0 && implies(bit(pre(pieces) &^ pieces, gmFrom()), !legal(pos(b), gmv()))
//@   loop 5: invariant kMoves & ^pre(kMoves) == 0 && implies(bit(b.Pieces[6] & b.Colors[b.STM], gmFrom()) && bit(pre(kMoves) &^ kMoves, Square(gm & 63)), !legal(pos(b), gmv())) && implies(bit(b.Pieces[6] & b.Colors[b.STM], gmFrom()) && bit(pre(kMoves) &^ kMoves, Square(midSq(gmv()))), !legal(pos(b), mkMv(mvFrom(gmv()), midSq(gmv()))))
//@   loop 6: invariant pawns & ^pre(pawns) == 0 && implies(bit(pre(pawns) &^ pawns, gmFrom()) && !(b.EnPassant != 0 && Square(gm & 63) == b.EnPassant), !legal(pos(b), gmv()))
//@   loop 7: invariant pawns & ^pre(pawns) == 0 && implies(bit(pre(pawns) &^ pawns, gmFrom()) && Square(gm & 63) == b.EnPassant, !legal(pos(b), gmv()))
//@
//@ # ---- Attackers: for a single target square, the pieces of `color` attacking it
//@ func (*Board).Attackers
//@   props C09
//@   requires color <= 1 && onehot(squares)
//@   ensures [set] result == attackersTo(pos(b), uint8(color), occ, uint8(squares.LowestSet()))
//@   modifies nothing
//@   nopanic
//@   loop 1: unroll 1
//@
//@ # the reverse look-up is the forward attack relation: a piece standing on s is in the set iff it attacks t
//@ lemma attackersToForward(b *Board, c Color, occ BitBoard, s Square, t Square)
//@   props C09
//@   hyp repOK(b) && c <= 1 && onBoard(s) && onBoard(t)
//@   concl has(attackersTo(pos(b), uint8(c), occ, uint8(t)), uint8(s)) == (has(colSet(pos(b), uint8(c)), uint8(s)) && ite(pieceAt(pos(b), uint8(s)) == 1, pawnAtt(uint8(c), uint8(s), uint8(t)), ite(pieceAt(pos(b), uint8(s)) == 2, knightAtt(uint8(s), uint8(t)), ite(pieceAt(pos(b), uint8(s)) == 3, has(bishopWalk(uint8(s), occ), uint8(t)), ite(pieceAt(pos(b), uint8(s)) == 4, has(rookWalk(uint8(s), occ), uint8(t)), ite(pieceAt(pos(b), uint8(s)) == 5, has(bishopWalk(uint8(s), occ) | rookWalk(uint8(s), occ), uint8(t)), ite(pieceAt(pos(b), uint8(s)) == 6, kingAtt(uint8(s), uint8(t)), false)))))))
//@
//@ # ---- Block: own pieces (king excluded) that can move onto one of the given empty squares.
//@ # Completeness direction only (what IsCheckmate's soundness needs): every pseudo-legal non-king,
//@ # non-e.p. move onto one of the squares starts from a square in the result.
//@ define gmTo() = Square(gm & 63)
//@ lemma reachersForward(b *Board, c Color, occ BitBoard, s Square, t Square)
//@   props C09
//@   hyp repOK(b) && c <= 1 && onBoard(s) && onBoard(t)
//@   concl has(reachersTo(pos(b), uint8(c), occ, uint8(t)), uint8(s)) == (has(colSet(pos(b), uint8(c)), uint8(s)) && ite(pieceAt(pos(b), uint8(s)) == 2, has(knightSet(sqbit(uint8(s))), uint8(t)), ite(pieceAt(pos(b), uint8(s)) == 3, has(bishopSet(sqbit(uint8(s)), occ), uint8(t)), ite(pieceAt(pos(b), uint8(s)) == 4, has(rookSet(sqbit(uint8(s)), occ), uint8(t)), ite(pieceAt(pos(b), uint8(s)) == 5, has(bishopSet(sqbit(uint8(s)), occ) | rookSet(sqbit(uint8(s)), occ), uint8(t)), false)))))
//@
//@ lemma setsAdditive(g BitBoard, s Square, occ BitBoard)
//@   props C09
//@   hyp onBoard(s)
//@   concl rookSet(g | sqbit(uint8(s)), occ) == rookSet(g, occ) | rookWalk(uint8(s), occ)
//@   concl bishopSet(g | sqbit(uint8(s)), occ) == bishopSet(g, occ) | bishopWalk(uint8(s), occ)
//@   concl knightSet(g | sqbit(uint8(s))) == knightSet(g) | knightSet(sqbit(uint8(s)))
//@
//@ define doneSq(all, rest) = all &^ rest
//@ func (*Board).Block
//@   props C09
//@   requires repOK(b) && color <= 1
//@   ensures [set] result == blockSet(pos(b), uint8(color), squares)
//@   modifies nothing
//@   nopanic
//@   use setsAdditive(doneSq(pre(sqrs), sqrs), sqrs.LowestSet(), occ) at loop1
//@   loop 1: invariant sqrs & ^pre(sqrs) == 0 && res == b.Colors[color] & ((knightSet(doneSq(pre(sqrs), sqrs)) & b.Pieces[2]) | (bishopSet(doneSq(pre(sqrs), sqrs), occ) & (b.Pieces[3] | b.Pieces[5])) | (rookSet(doneSq(pre(sqrs), sqrs), occ) & (b.Pieces[4] | b.Pieces[5])))
//@
//@ # ---- C09: the direct checkmate test
//@ # (known finding F6: an e.p. capture that interposes on the check line is not considered; such
//@ #  positions satisfy the validity predicate but cannot arise in play - see known_findings.json)
//@ define kingSqOf(b) = (b.Pieces[6] & b.Colors[b.STM]).LowestSet()
//@ define checkerSq(b) = attackersTo(pos(b), uint8(b.STM ^ 1), occB(b), uint8(kingSqOf(b))).LowestSet()
//@ define epInterposes(b) = b.EnPassant != 0 && has(between(uint8(kingSqOf(b)), uint8(checkerSq(b))), uint8(b.EnPassant))
//@ # in check from exactly one piece, a legal move of a piece other than the king captures the checker
//@ # (directly or en passant) or lands strictly between the king and the checker; in check from two
//@ # pieces only the king moves
//@ define specKingSq(p) = kingOf(p, stm(p))
//@ lemma singleCheckReplies(p $Pos, m $Mv)
//@   props C09
//@   timeout 600
//@   split pieceAt(p, mvFrom(m)) in 1..5
//@   hyp validPos(p) && inCheck(p, stm(p)) && legal(p, m) && pieceAt(p, mvFrom(m)) != 6
//@   concl [single] implies(onehot(attackersTo(p, other(stm(p)), occOf(p), tz8(specKingSq(p)))), capSq(p, m) == tz8(attackersTo(p, other(stm(p)), occOf(p), tz8(specKingSq(p)))) || has(between(tz8(specKingSq(p)), tz8(attackersTo(p, other(stm(p)), occOf(p), tz8(specKingSq(p))))), mvTo(m)))
//@   concl [double] onehot(attackersTo(p, other(stm(p)), occOf(p), tz8(specKingSq(p))))
//@
//@ # a slider's attack implies that the squares strictly in between are empty
//@ lemma slideBetween(s Square, t Square, occ BitBoard)
//@   props C09
//@   hyp onBoard(s) && onBoard(t)
//@   concl implies(has(rookWalk(uint8(s), occ), uint8(t)) || has(bishopWalk(uint8(s), occ), uint8(t)), between(uint8(s), uint8(t)) & occ == 0)
//@
//@ # a pseudo-legal non-capturing move of a piece other than the king onto an empty square of sq starts in blockSet
//@ lemma blockSetComplete(p $Pos, m $Mv, sq BitBoard)
//@   props C09
//@   hyp wfPos(p) && pseudo(p, m) && has(sq, mvTo(m)) && sq & occOf(p) == 0 && pieceAt(p, mvFrom(m)) != 6 && !isEP(p, m)
//@   concl has(blockSet(p, stm(p), sq), mvFrom(m))
//@
//@ # the squares of sq a piece standing on d can move to without capturing (sq: empty squares)
//@ define pawnSteps(b, d, sq) = (pawnPushSet(uint8(b.STM), sqbit(uint8(d))) & sq) | ite(startRank(uint8(b.STM), uint8(d)), pawnPushSet(uint8(b.STM), pawnPushSet(uint8(b.STM), sqbit(uint8(d))) &^ occB(b)) & sq, BitBoard(0))
//@ define blockTargets(b, d, sq) = ite(b.SquaresToPiece[d] == 1, pawnSteps(b, d, sq), ite(b.SquaresToPiece[d] == 2, knightSet(sqbit(uint8(d))) & sq, ite(b.SquaresToPiece[d] == 3, bishopWalk(uint8(d), occB(b)) & sq, ite(b.SquaresToPiece[d] == 4, rookWalk(uint8(d), occB(b)) & sq, (bishopWalk(uint8(d), occB(b)) | rookWalk(uint8(d), occB(b))) & sq))))
//@ define kq(b) = uint8(kingSqOf(b))
//@ define cq(b) = uint8(checkerSq(b))
//@ define chk(b) = attackersTo(pos(b), uint8(b.STM ^ 1), occB(b), kq(b))
//@ define lg(b) = legal(pos(b), gmv())
//@ func (*Board).IsCheckmate
//@   props C09
//@   requires repOK(b) && validPos(pos(b)) && inCheck(pos(b), uint8(b.STM)) && epNormalised(pos(b))
//@   thorough-only
//@   use singleCheckReplies(pos(b), gmv()) at exit
//@   use attackersToForward(b, b.STM, occB(b), gmFrom(), checkerSq(b)) at exit
//@   use attacks.inBetweenFilled(kingSqOf(b), checkerSq(b)) at exit
//@   use slideBetween(kingSqOf(b), checkerSq(b), occB(b)) at exit
//@   use blockSetComplete(pos(b), gmv(), between(kq(b), cq(b))) at exit
//@   # stepping stones of the soundness argument (each proved, then assumed by the next)
//@   assert [king] implies(result && gmFrom() == kingSqOf(b), !lg(b))
//@   assert [single] implies(result && lg(b) && gmFrom() != kingSqOf(b), onehot(chk(b)) && (capSq(pos(b), gmv()) == cq(b) || has(between(kq(b), cq(b)), uint8(gmTo()))))
//@   assert [capture] implies(result && lg(b) && gmFrom() != kingSqOf(b), capSq(pos(b), gmv()) != cq(b))
//@   assert [block] implies(result && lg(b) && gmFrom() != kingSqOf(b) && !epInterposes(b), !has(between(kq(b), cq(b)), uint8(gmTo())))
//@   ensures [sound] implies(result, !legal(pos(b), gmv()))
//@   # completeness: every `return false` names a legal move (witness)
//@   at-return 1 requires [witness1] legal(pos(b), mkMv(uint8(kingSq), uint8(to.LowestSet())))
//@   at-return 3 requires [witness3] legal(pos(b), witMove(pos(b), uint8(defender.LowestSet()), uint8(attacker.LowestSet())))
//@   at-return 4 requires [witness4] legal(pos(b), mkMv(epCand(pos(b), true), uint8(b.EnPassant))) || legal(pos(b), mkMv(epCand(pos(b), false), uint8(b.EnPassant)))
//@   at-return 5 requires [witness5] legal(pos(b), witMove(pos(b), uint8(defender.LowestSet()), uint8(blockTargets(b, defender.LowestSet(), blocked).LowestSet())))
//@   modifies nothing
//@   nopanic
//@   timeout 300
//@   use rookSym((defenders & -defenders).LowestSet(), blocked, occ) at loop3
//@   use bishopSym((defenders & -defenders).LowestSet(), blocked, occ) at loop3
//@   use knightSym((defenders & -defenders).LowestSet(), blocked) at loop3
//@   use attackersToForward(b, b.STM, occ, gmFrom(), attacker.LowestSet()) at loop2
//@   use attacks.inBetweenFilled(kingSq, aSq) at loop3
//@   use attacks.inBetweenFilled(kingSq, attacker.LowestSet()) at loop2
//@   loop 1: invariant kMvs & ^pre(kMvs) == 0 && implies(bit(b.Pieces[6] & b.Colors[b.STM], gmFrom()) && bit(pre(kMvs) &^ kMvs, Square(gm & 63)), !legal(pos(b), gmv()))
//@   loop 2: invariant defenders & ^pre(defenders) == 0 && onehot(attacker) && opp == b.Colors[b.STM^1] &^ ite(defenders == pre(defenders), BitBoard(0), attacker) && implies(bit(pre(defenders) &^ defenders, gmFrom()) && Square(gm & 63) == attacker.LowestSet() && !(b.EnPassant != 0 && Square(gm & 63) == b.EnPassant && bit(b.Pieces[1], gmFrom())), !legal(pos(b), gmv()))
//@   loop 3: invariant defenders & ^pre(defenders) == 0 && implies(bit(pre(defenders) &^ defenders, gmFrom()) && bit(blocked, Square(gm & 63)), !legal(pos(b), gmv()))
//@
//@ # ---- `pv` views (C07).  The PV argument only needs the abstract state machine of the board: gbs is a
//@ # ---- ghost naming the abstract state (BS) of the board being searched; making / undoing moves act
//@ # ---- on it through the functions mkS / unmkS / nullS / unnullS of the `search` views (same trusted
//@ # ---- definitions, same C03 round trips), and the legality filter's test is a function of it.  That
//@ # ---- the search functions restore the real board on every path is C06 (clause `board`).
//@ ghost gbs $BS
//@ func (*Board).MakeMove view pv
//@   trusted definition of mkS/tokS on the ghost state; the round-trip instance is property C03 (scenario board.makeUndo)
//@   ensures gbs == mkS(old(gbs), uint16(m)) && uint64(result) == tokS(old(gbs), uint16(m)) && uint8(b.STM) == bstm(gbs)
//@   ensures unmkS(mkS(old(gbs), uint16(m)), uint16(m), tokS(old(gbs), uint16(m))) == old(gbs)
//@   modifies b.*, gbs
//@
//@ func (*Board).UndoMove view pv
//@   trusted definition of unmkS on the ghost state
//@   ensures gbs == unmkS(old(gbs), uint16(m), uint64(r))
//@   modifies b.*, gbs
//@
//@ func (*Board).MakeNullMove view pv
//@   trusted definition of nullS/nullTok on the ghost state; round trip: scenario board.nullMoveRoundTrip (C03)
//@   ensures gbs == nullS(old(gbs)) && uint64(result) == nullTok(old(gbs))
//@   ensures unnullS(nullS(old(gbs)), nullTok(old(gbs))) == old(gbs)
//@   modifies b.*, gbs
//@
//@ func (*Board).UndoNullMove view pv
//@   trusted definition of unnullS on the ghost state
//@   ensures gbs == unnullS(old(gbs), uint64(r))
//@   modifies b.*, gbs
//@
//@ func (*Board).InCheck view pv
//@   trusted definition: inCheckS names InCheck's answer as a function of the abstract board state (InCheck reads only the board and writes nothing - main contract)
//@   ensures result == inCheckS(gbs, uint8(who))
//@   modifies nothing
