import Mathlib

open Function

/-- Cycle walking: the first-return map of an injective `P` to a set `T` is injective on `T`. -/
theorem firstReturn_inj {α : Type*} (P : α → α) (hP : Injective P) (T : Set α) :
    ∀ (k l : ℕ) (x y : α), 0 < k → 0 < l → x ∈ T → y ∈ T →
      (∀ j, 0 < j → j < k → P^[j] x ∉ T) → (∀ j, 0 < j → j < l → P^[j] y ∉ T) →
      P^[k] x = P^[l] y → x = y := by
  intro k l x y hk hl hx hy mink minl heq
  rcases Nat.lt_trichotomy k l with h | h | h
  · -- k < l : y's walk passes through x ∈ T at step l - k, contradiction
    exfalso
    have hd : l = (l - k) + k := by omega
    rw [hd, iterate_add_apply] at heq
    -- heq : P^[k] x = P^[l-k] (P^[k] y) ; rewrite as P^[k] x = P^[k] (P^[l-k] y)
    have h2 : P^[l - k] (P^[k] y) = P^[k] (P^[l - k] y) := by
      rw [← iterate_add_apply, ← iterate_add_apply, Nat.add_comm]
    rw [h2] at heq
    have := (hP.iterate k) heq
    exact minl (l - k) (by omega) (by omega) (this ▸ hx)
  · subst h
    exact (hP.iterate k) heq
  · exfalso
    have hd : k = (k - l) + l := by omega
    rw [hd, iterate_add_apply] at heq
    have h2 : P^[k - l] (P^[l] x) = P^[l] (P^[k - l] x) := by
      rw [← iterate_add_apply, ← iterate_add_apply, Nat.add_comm]
    rw [h2] at heq
    have := (hP.iterate l) heq
    exact mink (k - l) (by omega) (by omega) (this ▸ hy)

/-- On a finite type an injective map returns: every point has a positive period, so the walk from
`x ∈ T` reaches `T` again (termination of cycle walking). -/
theorem exists_return {α : Type*} [Finite α] (P : α → α) (hP : Injective P) (T : Set α)
    (x : α) (hx : x ∈ T) : ∃ k, 0 < k ∧ P^[k] x ∈ T := by
  have hbij : Bijective P := Finite.injective_iff_bijective.mp hP
  let e : Equiv.Perm α := Equiv.ofBijective P hbij
  have := Fintype.ofFinite α
  refine ⟨orderOf e, orderOf_pos e, ?_⟩
  have : (e ^ orderOf e) x = x := by rw [pow_orderOf_eq_one]; rfl
  have h2 : P^[orderOf e] x = (e ^ orderOf e) x := by
    have : ∀ n, P^[n] x = (e ^ n) x := by
      intro n
      induction n with
      | zero => rfl
      | succ n ih => rw [iterate_succ_apply', ih, pow_succ']; rfl
    exact this _
  rw [h2, this]; exact hx
