; tt.smt2 -- abstract view of one transposition-table bucket and the store / probe operations
; (specification for property C15; written from the property statement and the documented
; replacement policy, not from the code).
;
; A bucket has four lanes.  Lane i holds a 16-bit signature (bits 16i..16i+15 of the key word) and
; an entry (move, value, packed depth/bound, generation).  Signature 0 encodes "empty".

(define-sort U16 () (_ BitVec 16))
(define-sort U8 () (_ BitVec 8))
(define-sort I64 () (_ BitVec 64))
(declare-datatypes ((Ent 0)) (((mkEnt (eMove U16) (eVal U16) (ePk U8) (eGen U8)))))
(declare-datatypes ((Bkt 0)) (((mkBkt (bKeys I64) (e0 Ent) (e1 Ent) (e2 Ent) (e3 Ent)))))

(define-fun laneOf ((w I64) (i I64)) U16 ((_ extract 15 0) (bvlshr w (bvmul #x0000000000000010 i))))
(define-fun entAt ((b Bkt) (i I64)) Ent
  (ite (= i #x0000000000000000) (e0 b) (ite (= i #x0000000000000001) (e1 b) (ite (= i #x0000000000000002) (e2 b) (e3 b)))))
(define-fun sigAt ((b Bkt) (i I64)) U16 (laneOf (bKeys b) i))

; packed byte: depth in the upper six bits, bound type in the lower two
(define-fun entDepth ((e Ent)) U8 (bvlshr (ePk e) #x02))
(define-fun entType ((e Ent)) U8 (bvand (ePk e) #x03))
(define-fun packDT ((d U8) (typ U8)) U8 (bvor (bvshl d #x02) typ))

; the bucket a 64-bit hash maps to in a table of n buckets (multiply-shift reduction of the low 32 bits)
(define-fun bucketOf ((hash I64) (n I64)) I64
  (bvlshr (bvmul ((_ zero_extend 32) ((_ extract 31 0) hash)) n) #x0000000000000020))
(define-fun sigOf ((hash I64)) U16 ((_ extract 63 48) hash))

; lowest lane whose signature is k; 4 if there is none
(define-fun wMatch ((w I64) (k U16)) I64
  (ite (= (laneOf w #x0000000000000000) k) #x0000000000000000
  (ite (= (laneOf w #x0000000000000001) k) #x0000000000000001
  (ite (= (laneOf w #x0000000000000002) k) #x0000000000000002
  (ite (= (laneOf w #x0000000000000003) k) #x0000000000000003 #x0000000000000004)))))
(define-fun ttMatch ((b Bkt) (k U16)) I64 (wMatch (bKeys b) k))
(define-fun ttHit ((b Bkt) (k U16)) Bool (not (= (ttMatch b k) #x0000000000000004)))

; replacement quality: deeper and younger entries are worth more (generation distance counts double)
(define-fun ttQuality ((e Ent) (gen U8)) I64
  (bvadd ((_ sign_extend 56) (entDepth e))
         (bvmul #x0000000000000002 (bvsub ((_ zero_extend 56) (eGen e)) ((_ zero_extend 56) gen)))))
; first lane of minimal quality
(define-fun ttWorst ((b Bkt) (gen U8)) I64
  (let ((q0 (ttQuality (e0 b) gen)) (q1 (ttQuality (e1 b) gen)) (q2 (ttQuality (e2 b) gen)) (q3 (ttQuality (e3 b) gen)))
    (ite (and (bvsle q0 q1) (bvsle q0 q2) (bvsle q0 q3)) #x0000000000000000
    (ite (and (bvsle q1 q2) (bvsle q1 q3)) #x0000000000000001
    (ite (bvsle q2 q3) #x0000000000000002 #x0000000000000003)))))
(define-fun ttVictim ((b Bkt) (k U16) (gen U8)) I64
  (ite (ttHit b k) (ttMatch b k) (ttWorst b gen)))

; a bound (typ != 2) does not displace a same-generation entry for the key that is more than two plies deeper
(define-fun ttSuppressed ((b Bkt) (k U16) (gen U8) (d U8) (typ U8)) Bool
  (and (ttHit b k)
       (not (= typ #x02))
       (bvsgt (entDepth (entAt b (ttMatch b k))) (bvadd d #x02))
       (= (eGen (entAt b (ttMatch b k))) gen)))

; mate scores are stored relative to the node, i.e. re-based by the ply (Inf = 10000, MaxPlies = 64)
(define-fun rebaseIn ((v U16) (ply U8)) U16
  (ite (bvslt v #xd930) (bvsub v ((_ sign_extend 8) ply))          ; v < -Inf+64  (-9936)
  (ite (bvsgt v #x26d0) (bvadd v ((_ sign_extend 8) ply)) v)))      ; v >  Inf-64  ( 9936)
(define-fun rebaseOut ((v U16) (ply U8)) U16
  (ite (bvsgt v #x26d0) (bvsub v ((_ sign_extend 8) ply))
  (ite (bvslt v #xd930) (bvadd v ((_ sign_extend 8) ply)) v)))

(define-fun setLane ((w I64) (i I64) (k U16)) I64
  (let ((sh (bvmul #x0000000000000010 i)))
    (bvor (bvand w (bvnot (bvshl #x000000000000ffff sh))) (bvshl ((_ zero_extend 48) k) sh))))
(define-fun putEnt ((b Bkt) (i I64) (k U16) (e Ent)) Bkt
  (mkBkt (setLane (bKeys b) i k)
         (ite (= i #x0000000000000000) e (e0 b)) (ite (= i #x0000000000000001) e (e1 b))
         (ite (= i #x0000000000000002) e (e2 b)) (ite (= i #x0000000000000003) e (e3 b))))

; the store operation on one bucket
(define-fun ttStore ((b Bkt) (k U16) (gen U8) (d U8) (ply U8) (sm U16) (value U16) (typ U8)) Bkt
  (ite (ttSuppressed b k gen d typ) b
       (let ((v (ttVictim b k gen)))
         (putEnt b v k
           (mkEnt (ite (and (= sm #x0000) (ttHit b k)) (eMove (entAt b v)) sm)
                  (rebaseIn value ply) (packDT d typ) gen)))))

; bucket well-formedness: non-zero signatures are pairwise distinct
(define-fun distinctOrZero ((a U16) (b U16)) Bool (or (= a #x0000) (not (= a b))))
(define-fun wfBkt ((b Bkt)) Bool
  (let ((s0 (sigAt b #x0000000000000000)) (s1 (sigAt b #x0000000000000001)) (s2 (sigAt b #x0000000000000002)) (s3 (sigAt b #x0000000000000003)))
    (and (distinctOrZero s0 s1) (distinctOrZero s0 s2) (distinctOrZero s0 s3)
         (distinctOrZero s1 s2) (distinctOrZero s1 s3) (distinctOrZero s2 s3))))

; ---- abstract history of one (bucket, signature) pair, signature non-zero: what a hit must return
(define-fun emptyEnt () Ent (mkEnt #x0000 #x0000 #x00 #x00))
(define-fun emptyBkt () Bkt (mkBkt #x0000000000000000 emptyEnt emptyEnt emptyEnt emptyEnt))
(declare-datatypes ((Rec 0)) (((mkRec (rPresent Bool) (rMove U16) (rVal U16) (rPk U8) (rGen U8)))))
; the record agrees with the bucket: the signature is resident iff the record says so, and then the lane holds the record
(define-fun recAgrees ((b Bkt) (k U16) (r Rec)) Bool
  (and (= (ttHit b k) (rPresent r))
       (=> (ttHit b k)
           (let ((e (entAt b (ttMatch b k))))
             (and (= (eMove e) (rMove r)) (= (eVal e) (rVal r)) (= (ePk e) (rPk r)) (= (eGen e) (rGen r)))))))
; how the record of signature k evolves when signature k2 is stored into the same bucket:
;  - same signature, not suppressed: depth/bound/score/generation are those just stored; the move is the
;    stored one, or the previously recorded one if the stored move is null and the key was resident
;  - other signature: the record is dropped exactly when the store's victim lane held k
(define-fun recStep ((b Bkt) (k U16) (r Rec) (k2 U16) (gen U8) (d U8) (ply U8) (sm U16) (value U16) (typ U8)) Rec
  (ite (= k2 k)
       (ite (ttSuppressed b k2 gen d typ) r
            (mkRec true (ite (and (= sm #x0000) (rPresent r)) (rMove r) sm) (rebaseIn value ply) (packDT d typ) gen))
       (ite (and (not (ttSuppressed b k2 gen d typ)) (rPresent r) (= (ttVictim b k2 gen) (ttMatch b k)))
            (mkRec false (rMove r) (rVal r) (rPk r) (rGen r))
            r)))
