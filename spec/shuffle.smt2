; shuffle.smt2 -- specification symbols for property C20
; rf is the Feistel round function, kept uninterpreted: the permutation argument holds for any round function.
(declare-fun rf ((_ BitVec 64) (_ BitVec 64)) (_ BitVec 64))
