; shuffle.smt2 -- specification symbols for property C20
; rf is the Feistel round function, kept uninterpreted: the permutation argument holds for any round function.
(declare-fun rf ((_ BitVec 64) (_ BitVec 64)) (_ BitVec 64))
; the physical training file as a ghost: its length and its content by offset (uninterpreted)
(declare-fun fileLen () (_ BitVec 64))
(declare-fun fileByte ((_ BitVec 64)) (_ BitVec 8))
; si names the value computed by shuffleIndex (a pure function of its three arguments)
(declare-fun si ((_ BitVec 64) (_ BitVec 64) (_ BitVec 64)) (_ BitVec 64))
; fst names the value computed by feistel (a pure function); fiter(j, x, seed, bits) is its j-th iterate on x
(declare-fun fst ((_ BitVec 64) (_ BitVec 64) (_ BitVec 64)) (_ BitVec 64))
(declare-fun fiter ((_ BitVec 64) (_ BitVec 64) (_ BitVec 64) (_ BitVec 64)) (_ BitVec 64))
