; geom.smt2 -- board geometry (trusted specification base, see /verif/DESIGN.md section 4)
;
; Squares are numbered a1=0 .. h8=63 (file = s mod 8, rank = s div 8), as in chess/square.go.
; A bitboard has bit s set iff square s is in the set.
;
; Part 1: coordinate definitions (what the words "king move", "knight move", "ray" mean).
; Part 2: set-wise (bitboard) forms used in position-level obligations.  Every Part-2 function is
;         proved equal to its Part-1 meaning by lemmas generated in the C12 check; it is not
;         trusted on its own.

(define-sort BB () (_ BitVec 64))
(define-sort Sq () (_ BitVec 8))
(define-sort B8 () (_ BitVec 8))

(define-fun bb0 () BB #x0000000000000000)
(define-fun sqbit ((s Sq)) BB (bvshl #x0000000000000001 ((_ zero_extend 56) s)))
(define-fun has ((b BB) (s Sq)) Bool (not (= (bvand b (sqbit s)) bb0)))
(define-fun onehot ((b BB)) Bool (and (not (= b bb0)) (= (bvand b (bvsub b #x0000000000000001)) bb0)))
(define-fun onboard ((s Sq)) Bool (bvult s #x40))
(define-fun fileOf ((s Sq)) B8 (bvand s #x07))
(define-fun rankOf ((s Sq)) B8 (bvlshr s #x03))
(define-fun mkSq ((f B8) (r B8)) Sq (bvor (bvshl r #x03) f))
(define-fun absd ((a B8) (b B8)) B8 (ite (bvuge a b) (bvsub a b) (bvsub b a)))
(define-fun in07 ((x B8)) Bool (bvult x #x08))

; ---------------------------------------------------------------- Part 1: coordinates
(define-fun kingAtt ((s Sq) (t Sq)) Bool
  (and (not (= s t)) (bvule (absd (fileOf s) (fileOf t)) #x01) (bvule (absd (rankOf s) (rankOf t)) #x01)))
(define-fun knightAtt ((s Sq) (t Sq)) Bool
  (let ((df (absd (fileOf s) (fileOf t))) (dr (absd (rankOf s) (rankOf t))))
    (or (and (= df #x01) (= dr #x02)) (and (= df #x02) (= dr #x01)))))
; c = 0 white (moves towards rank 8), c = 1 black
(define-fun pawnAtt ((c B8) (s Sq) (t Sq)) Bool
  (and (= (absd (fileOf s) (fileOf t)) #x01)
       (ite (= c #x00) (= (rankOf t) (bvadd (rankOf s) #x01)) (= (bvadd (rankOf t) #x01) (rankOf s)))))
(define-fun pawnPush1 ((c B8) (s Sq) (t Sq)) Bool
  (and (= (fileOf s) (fileOf t))
       (ite (= c #x00) (= (rankOf t) (bvadd (rankOf s) #x01)) (= (bvadd (rankOf t) #x01) (rankOf s)))))

; ray walk from s in direction (df,dr) in {-1,0,1}^2: step k (1..7) is reached iff it is on the
; board and every earlier step was reached and empty.  Result: the squares reached, i.e. up to and
; including the first occupied one.
(define-fun stepOn ((s Sq) (df B8) (dr B8) (k B8)) Bool
  (and (in07 (bvadd (fileOf s) (bvmul k df))) (in07 (bvadd (rankOf s) (bvmul k dr)))))
(define-fun stepSq ((s Sq) (df B8) (dr B8) (k B8)) Sq
  (mkSq (bvand (bvadd (fileOf s) (bvmul k df)) #x07) (bvand (bvadd (rankOf s) (bvmul k dr)) #x07)))
(define-fun cell ((ok Bool) (q Sq)) BB (ite ok (sqbit q) bb0))
(define-fun walkDir ((s Sq) (occ BB) (df B8) (dr B8)) BB
  (let ((q1 (stepSq s df dr #x01)) (q2 (stepSq s df dr #x02)) (q3 (stepSq s df dr #x03)) (q4 (stepSq s df dr #x04))
        (q5 (stepSq s df dr #x05)) (q6 (stepSq s df dr #x06)) (q7 (stepSq s df dr #x07)))
  (let ((k1 (stepOn s df dr #x01)))
  (let ((k2 (and k1 (not (has occ q1)) (stepOn s df dr #x02))))
  (let ((k3 (and k2 (not (has occ q2)) (stepOn s df dr #x03))))
  (let ((k4 (and k3 (not (has occ q3)) (stepOn s df dr #x04))))
  (let ((k5 (and k4 (not (has occ q4)) (stepOn s df dr #x05))))
  (let ((k6 (and k5 (not (has occ q5)) (stepOn s df dr #x06))))
  (let ((k7 (and k6 (not (has occ q6)) (stepOn s df dr #x07))))
    (bvor (cell k1 q1) (cell k2 q2) (cell k3 q3) (cell k4 q4) (cell k5 q5) (cell k6 q6) (cell k7 q7)))))))))))
(define-fun rookWalk ((s Sq) (occ BB)) BB
  (bvor (walkDir s occ #x00 #x01) (walkDir s occ #x00 #xff) (walkDir s occ #x01 #x00) (walkDir s occ #xff #x00)))
(define-fun bishopWalk ((s Sq) (occ BB)) BB
  (bvor (walkDir s occ #x01 #x01) (walkDir s occ #xff #x01) (walkDir s occ #x01 #xff) (walkDir s occ #xff #xff)))

; ---------------------------------------------------------------- Part 2: set-wise forms
(define-fun notA () BB #xfefefefefefefefe)
(define-fun notH () BB #x7f7f7f7f7f7f7f7f)
(define-fun rank1 () BB #x00000000000000ff)
(define-fun rank2 () BB #x000000000000ff00)
(define-fun rank7 () BB #x00ff000000000000)
(define-fun rank8 () BB #xff00000000000000)
(define-fun sN  ((x BB)) BB (bvshl x #x0000000000000008))
(define-fun sS  ((x BB)) BB (bvlshr x #x0000000000000008))
(define-fun sE  ((x BB)) BB (bvand (bvshl x #x0000000000000001) notA))
(define-fun sW  ((x BB)) BB (bvand (bvlshr x #x0000000000000001) notH))
(define-fun sNE ((x BB)) BB (bvand (bvshl x #x0000000000000009) notA))
(define-fun sNW ((x BB)) BB (bvand (bvshl x #x0000000000000007) notH))
(define-fun sSE ((x BB)) BB (bvand (bvlshr x #x0000000000000007) notA))
(define-fun sSW ((x BB)) BB (bvand (bvlshr x #x0000000000000009) notH))
; occluded fill: squares attacked along one direction by ANY slider in the set g
(define-fun fN ((g BB) (occ BB)) BB (let ((e (bvnot occ))) (let ((a1 (sN g))) (let ((a2 (bvor a1 (sN (bvand a1 e))))) (let ((a3 (bvor a2 (sN (bvand a2 e))))) (let ((a4 (bvor a3 (sN (bvand a3 e))))) (let ((a5 (bvor a4 (sN (bvand a4 e))))) (let ((a6 (bvor a5 (sN (bvand a5 e))))) (bvor a6 (sN (bvand a6 e)))))))))))
(define-fun fS ((g BB) (occ BB)) BB (let ((e (bvnot occ))) (let ((a1 (sS g))) (let ((a2 (bvor a1 (sS (bvand a1 e))))) (let ((a3 (bvor a2 (sS (bvand a2 e))))) (let ((a4 (bvor a3 (sS (bvand a3 e))))) (let ((a5 (bvor a4 (sS (bvand a4 e))))) (let ((a6 (bvor a5 (sS (bvand a5 e))))) (bvor a6 (sS (bvand a6 e)))))))))))
(define-fun fE ((g BB) (occ BB)) BB (let ((e (bvnot occ))) (let ((a1 (sE g))) (let ((a2 (bvor a1 (sE (bvand a1 e))))) (let ((a3 (bvor a2 (sE (bvand a2 e))))) (let ((a4 (bvor a3 (sE (bvand a3 e))))) (let ((a5 (bvor a4 (sE (bvand a4 e))))) (let ((a6 (bvor a5 (sE (bvand a5 e))))) (bvor a6 (sE (bvand a6 e)))))))))))
(define-fun fW ((g BB) (occ BB)) BB (let ((e (bvnot occ))) (let ((a1 (sW g))) (let ((a2 (bvor a1 (sW (bvand a1 e))))) (let ((a3 (bvor a2 (sW (bvand a2 e))))) (let ((a4 (bvor a3 (sW (bvand a3 e))))) (let ((a5 (bvor a4 (sW (bvand a4 e))))) (let ((a6 (bvor a5 (sW (bvand a5 e))))) (bvor a6 (sW (bvand a6 e)))))))))))
(define-fun fNE ((g BB) (occ BB)) BB (let ((e (bvnot occ))) (let ((a1 (sNE g))) (let ((a2 (bvor a1 (sNE (bvand a1 e))))) (let ((a3 (bvor a2 (sNE (bvand a2 e))))) (let ((a4 (bvor a3 (sNE (bvand a3 e))))) (let ((a5 (bvor a4 (sNE (bvand a4 e))))) (let ((a6 (bvor a5 (sNE (bvand a5 e))))) (bvor a6 (sNE (bvand a6 e)))))))))))
(define-fun fNW ((g BB) (occ BB)) BB (let ((e (bvnot occ))) (let ((a1 (sNW g))) (let ((a2 (bvor a1 (sNW (bvand a1 e))))) (let ((a3 (bvor a2 (sNW (bvand a2 e))))) (let ((a4 (bvor a3 (sNW (bvand a3 e))))) (let ((a5 (bvor a4 (sNW (bvand a4 e))))) (let ((a6 (bvor a5 (sNW (bvand a5 e))))) (bvor a6 (sNW (bvand a6 e)))))))))))
(define-fun fSE ((g BB) (occ BB)) BB (let ((e (bvnot occ))) (let ((a1 (sSE g))) (let ((a2 (bvor a1 (sSE (bvand a1 e))))) (let ((a3 (bvor a2 (sSE (bvand a2 e))))) (let ((a4 (bvor a3 (sSE (bvand a3 e))))) (let ((a5 (bvor a4 (sSE (bvand a4 e))))) (let ((a6 (bvor a5 (sSE (bvand a5 e))))) (bvor a6 (sSE (bvand a6 e)))))))))))
(define-fun fSW ((g BB) (occ BB)) BB (let ((e (bvnot occ))) (let ((a1 (sSW g))) (let ((a2 (bvor a1 (sSW (bvand a1 e))))) (let ((a3 (bvor a2 (sSW (bvand a2 e))))) (let ((a4 (bvor a3 (sSW (bvand a3 e))))) (let ((a5 (bvor a4 (sSW (bvand a4 e))))) (let ((a6 (bvor a5 (sSW (bvand a5 e))))) (bvor a6 (sSW (bvand a6 e)))))))))))
(define-fun rookSet   ((g BB) (occ BB)) BB (bvor (fN g occ) (fS g occ) (fE g occ) (fW g occ)))
(define-fun bishopSet ((g BB) (occ BB)) BB (bvor (fNE g occ) (fNW g occ) (fSE g occ) (fSW g occ)))
(define-fun kingSet ((g BB)) BB
  (let ((r (bvor g (sE g) (sW g)))) (bvor (sE g) (sW g) (sN r) (sS r))))
(define-fun knightSet ((g BB)) BB
  (let ((e1 (sE g)) (w1 (sW g)))
  (let ((e2 (sE e1)) (w2 (sW w1)))
    (bvor (sN (sN (bvor e1 w1))) (sS (sS (bvor e1 w1))) (sN (bvor e2 w2)) (sS (bvor e2 w2))))))
; squares attacked by pawns of colour c standing on g
(define-fun pawnAttSet ((c B8) (g BB)) BB (ite (= c #x00) (bvor (sNE g) (sNW g)) (bvor (sSE g) (sSW g))))
(define-fun pawnPushSet ((c B8) (g BB)) BB (ite (= c #x00) (sN g) (sS g)))

; ---------------------------------------------------------------- in-between squares
; two squares are aligned when they share a file, a rank or a diagonal
(define-fun aligned ((a Sq) (b Sq)) Bool
  (or (= (fileOf a) (fileOf b)) (= (rankOf a) (rankOf b)) (= (absd (fileOf a) (fileOf b)) (absd (rankOf a) (rankOf b)))))
(define-fun sgn8 ((x B8) (y B8)) B8 (ite (bvugt y x) #x01 (ite (bvult y x) #xff #x00)))   ; sign of y - x
(define-fun cheb ((a Sq) (b Sq)) B8
  (let ((df (absd (fileOf a) (fileOf b))) (dr (absd (rankOf a) (rankOf b)))) (ite (bvuge df dr) df dr)))
; the squares strictly between a and b (empty unless aligned and at distance >= 2)
(define-fun between ((a Sq) (b Sq)) BB
  (let ((df (sgn8 (fileOf a) (fileOf b))) (dr (sgn8 (rankOf a) (rankOf b))) (n (cheb a b)) (al (aligned a b)))
    (bvor (cell (and al (bvult #x01 n)) (stepSq a df dr #x01)) (cell (and al (bvult #x02 n)) (stepSq a df dr #x02))
          (cell (and al (bvult #x03 n)) (stepSq a df dr #x03)) (cell (and al (bvult #x04 n)) (stepSq a df dr #x04))
          (cell (and al (bvult #x05 n)) (stepSq a df dr #x05)) (cell (and al (bvult #x06 n)) (stepSq a df dr #x06)))))

; ---------------------------------------------------------------- colour mirror
; the mirror image of a set of squares: ranks flipped (square s <-> s xor 56), i.e. the bytes reversed
(define-fun mirrorBB ((x BB)) BB
  (concat ((_ extract 7 0) x) ((_ extract 15 8) x) ((_ extract 23 16) x) ((_ extract 31 24) x)
          ((_ extract 39 32) x) ((_ extract 47 40) x) ((_ extract 55 48) x) ((_ extract 63 56) x)))

; index of the lowest set bit as a square (64 if empty)
(define-fun tz8 ((x BB)) Sq ((_ extract 7 0) (tz64 x)))
