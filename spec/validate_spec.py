#!/usr/bin/env python3-vt
"""Spec sanity: evaluate the rule predicates of geom.smt2/rules.smt2 on ground positions and
compare legal-move counts with published perft(1)/perft(2) numbers.  Not part of any proof; it
guards the trusted specification base against being wrong in a way a proof would inherit."""
import os, sys, time
from z3 import *

HERE = os.path.dirname(os.path.abspath(__file__))
PRELUDE = open(os.path.join(HERE, 'geom.smt2')).read() + open(os.path.join(HERE, 'rules.smt2')).read()

def fen_to_fields(fen):
    parts = fen.split()
    P = {k: 0 for k in 'PNBRQK'}; col = [0, 0]
    rank, file = 7, 0
    for ch in parts[0]:
        if ch == '/': rank -= 1; file = 0
        elif ch.isdigit(): file += int(ch)
        else:
            sq = rank * 8 + file
            P[ch.upper()] |= 1 << sq
            col[0 if ch.isupper() else 1] |= 1 << sq
            file += 1
    stm = 0 if parts[1] == 'w' else 1
    cas = sum(b for c, b in zip('KQkq', (1, 2, 4, 8)) if c in parts[2])
    ep = 0 if parts[3] == '-' else (ord(parts[3][0]) - 97) + 8 * (int(parts[3][1]) - 1)
    return dict(P=P, col=col, stm=stm, cas=cas, ep=ep, fifty=int(parts[4]), full=int(parts[5]))

def pos_term(d):
    bb = lambda x: '#x%016x' % x
    b8 = lambda x: '#x%02x' % x
    return '(mkPos %s %s %s %s %s %s %s %s %s %s %s %s %s)' % (
        bb(d['P']['P']), bb(d['P']['N']), bb(d['P']['B']), bb(d['P']['R']), bb(d['P']['Q']), bb(d['P']['K']),
        bb(d['col'][0]), bb(d['col'][1]), b8(d['stm']), b8(d['ep']), b8(d['cas']), b8(d['fifty']), bb(d['full']))

def fields_from_model(model, names):
    return {n: model.eval(names[n], model_completion=True).as_long() for n in names}

def legal_moves(pos_smt):
    """all m with legal(pos,m): all-SAT over a 16-bit variable"""
    s = Solver()
    s.from_string(PRELUDE + '(declare-const m Mv)\n(assert (legal %s m))\n' % pos_smt)
    m = BitVec('m', 16)
    out = []
    while s.check() == sat:
        v = s.model().eval(m, model_completion=True).as_long()
        out.append(v)
        s.add(m != v)
    return sorted(out)

def succ_fields(pos_smt, mv):
    s = Solver()
    txt = PRELUDE + '(declare-const q Pos)\n(assert (= q (succ %s #x%04x)))\n' % (pos_smt, mv)
    txt += '(assert (validPos %s))\n' % pos_smt
    s.from_string(txt)
    assert s.check() == sat, 'position not valid or succ undefined'
    mdl = s.model()
    q = [d for d in mdl.decls() if d.name() == 'q'][0]
    return mdl[q].sexpr()

def mv_str(v):
    sq = lambda s: 'abcdefgh'[s % 8] + str(s // 8 + 1)
    return sq((v >> 6) & 63) + sq(v & 63) + ' pnbrqk?'[(v >> 12) & 7].strip()

def z3pos_to_smt(txt):
    # model prints (mkPos #x.. ...) already in SMT-LIB syntax
    return txt.replace('\n', ' ')

SUITE = [
    ('startpos', 'rnbqkbnr/pppppppp/8/8/8/8/PPPPPPPP/RNBQKBNR w KQkq - 0 1', 20, 400),
    ('kiwipete', 'r3k2r/p1ppqpb1/bn2pnp1/3PN3/1p2P3/2N2Q1p/PPPBBPPP/R3K2R w KQkq - 0 1', 48, 2039),
    ('pos3', '8/2p5/3p4/KP5r/1R3p1k/8/4P1P1/8 w - - 0 1', 14, 191),
    ('pos4', 'r3k2r/Pppp1ppp/1b3nbN/nP6/BBP1P3/q4N2/Pp1P2PP/R2Q1RK1 w kq - 0 1', 6, 264),
    ('pos5', 'rnbq1k1r/pp1Pbppp/2p5/8/2B5/8/PPP1NnPP/RNBQK2R w KQ - 1 8', 44, 1486),
    ('pos6', 'r4rk1/1pp1qppp/p1np1n2/2b1p1B1/2B1P1b1/P1NP1N2/1PP1QPPP/R4RK1 w - - 0 10', 46, 2079),
]

# (fen, move, expected e.p. field of the successor): the target is recorded iff an e.p. capture is legal
E2E4 = (12 << 6) | 28
EP_CASES = [
    ('8/8/8/7k/5p2/8/4P3/K2B4 w - - 0 1', E2E4, 0),    # fxe3 illegal: check discovered from d1 through e2
    ('4k3/8/8/8/5p2/8/4P3/4K3 w - - 0 1', E2E4, 20),    # fxe3 legal -> target e3
    ('4k3/8/8/8/8/8/4P3/4K3 w - - 0 1', E2E4, 0),       # no capturer
    ('8/8/8/8/k4p1R/8/4P3/4K3 w - - 0 1', E2E4, 0),     # both pawns leave rank 4 -> Rh4 checks Ka4 -> illegal
]

def ep_of(sexpr):
    toks = sexpr.replace('(', ' ').replace(')', ' ').split()
    return int(toks[10].replace('#x', ''), 16)

def main():
    depth2 = '--perft2' in sys.argv
    ok = True
    for fen, mv, want in EP_CASES:
        got = ep_of(succ_fields(pos_term(fen_to_fields(fen)), mv))
        print('ep-case %-40s got=%d want=%d' % (fen, got, want))
        ok &= got == want
    for name, fen, p1, p2 in SUITE:
        t = time.time()
        root = pos_term(fen_to_fields(fen))
        ms = legal_moves(root)
        line = '%-9s perft1 spec=%d want=%d' % (name, len(ms), p1)
        ok &= len(ms) == p1
        if depth2:
            tot = 0
            for m in ms:
                q = z3pos_to_smt(succ_fields(root, m))
                tot += len(legal_moves(q))
            line += '  perft2 spec=%d want=%d' % (tot, p2)
            ok &= tot == p2
        print(line, ' %.1fs' % (time.time() - t))
    print('SPEC-SANITY', 'OK' if ok else 'MISMATCH')
    sys.exit(0 if ok else 1)

if __name__ == '__main__':
    main()
