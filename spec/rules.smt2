; rules.smt2 -- positions, moves and the rules of chess (trusted specification base)
; requires geom.smt2.  Written from the FIDE Laws (art. 3, 5.2, 9) and the property statements in
; /verif/properties.jsonl, not from the engine's code.
;
; Encodings shared with the engine (these are interface facts, checked by the contracts that use them):
;   colour: 0 white, 1 black          piece: 0 none 1 pawn 2 knight 3 bishop 4 rook 5 queen 6 king
;   castling rights byte: bit0 white short, bit1 white long, bit2 black short, bit3 black long
;   en-passant field: 0 = none, otherwise the target square (a1 = 0 can never be a target)
;   move: bits 0-5 to, bits 6-11 from, bits 12-14 promotion piece, bit 15 clear

(define-sort Mv () (_ BitVec 16))
(declare-datatypes ((Pos 0)) (((mkPos
  (pP BB) (pN BB) (pB BB) (pR BB) (pQ BB) (pK BB)      ; piece-type sets
  (cW BB) (cB BB)                                      ; colour sets
  (stm B8) (ep B8) (cas B8)                            ; side to move, e.p. target, castling rights
  (fifty B8) (full (_ BitVec 64))))))                  ; halfmove clock, fullmove number

(define-fun mvTo    ((m Mv)) Sq ((_ zero_extend 2) ((_ extract 5 0) m)))
(define-fun mvFrom  ((m Mv)) Sq ((_ zero_extend 2) ((_ extract 11 6) m)))
(define-fun mvPromo ((m Mv)) B8 ((_ zero_extend 5) ((_ extract 14 12) m)))
(define-fun mvOK    ((m Mv)) Bool (= ((_ extract 15 15) m) #b0))

(define-fun colSet ((p Pos) (c B8)) BB (ite (= c #x00) (cW p) (cB p)))
(define-fun other ((c B8)) B8 (bvxor c #x01))
(define-fun occOf ((p Pos)) BB (bvor (cW p) (cB p)))
(define-fun pieceAt ((p Pos) (s Sq)) B8
  (ite (has (pP p) s) #x01 (ite (has (pN p) s) #x02 (ite (has (pB p) s) #x03
  (ite (has (pR p) s) #x04 (ite (has (pQ p) s) #x05 (ite (has (pK p) s) #x06 #x00)))))))
(define-fun kingOf ((p Pos) (c B8)) BB (bvand (pK p) (colSet p c)))

; the three encodings of the placement agree (the per-square map is handled by the C04 invariant)
(define-fun wfPos ((p Pos)) Bool
  (and (= (bvand (cW p) (cB p)) bb0)
       (= (bvor (pP p) (pN p) (pB p) (pR p) (pQ p) (pK p)) (occOf p))
       (= (bvand (pP p) (bvor (pN p) (pB p) (pR p) (pQ p) (pK p))) bb0)
       (= (bvand (pN p) (bvor (pB p) (pR p) (pQ p) (pK p))) bb0)
       (= (bvand (pB p) (bvor (pR p) (pQ p) (pK p))) bb0)
       (= (bvand (pR p) (bvor (pQ p) (pK p))) bb0)
       (= (bvand (pQ p) (pK p)) bb0)
       (bvule (stm p) #x01) (bvult (ep p) #x40) (bvult (cas p) #x10)))

; squares attacked by side `by` when the board occupancy is `occ` (art. 3.1.2: a piece attacks a
; square if it could capture there) -- forward, from the attackers.
(define-fun attackedSet ((p Pos) (by B8) (occ BB)) BB
  (let ((s (colSet p by)))
    (bvor (pawnAttSet by (bvand (pP p) s))
          (knightSet (bvand (pN p) s))
          (kingSet (bvand (pK p) s))
          (rookSet (bvand (bvor (pR p) (pQ p)) s) occ)
          (bishopSet (bvand (bvor (pB p) (pQ p)) s) occ))))
(define-fun inCheck ((p Pos) (c B8)) Bool
  (not (= (bvand (attackedSet p (other c) (occOf p)) (kingOf p c)) bb0)))

; ------------------------------------------------------------------ validity (the quantifier text)
(define-fun rightsOK ((p Pos)) Bool
  (and (=> (not (= (bvand (cas p) #x03) #x00)) (has (kingOf p #x00) #x04))
       (=> (not (= (bvand (cas p) #x0c) #x00)) (has (kingOf p #x01) #x3c))
       (=> (not (= (bvand (cas p) #x01) #x00)) (has (bvand (pR p) (cW p)) #x07))
       (=> (not (= (bvand (cas p) #x02) #x00)) (has (bvand (pR p) (cW p)) #x00))
       (=> (not (= (bvand (cas p) #x04) #x00)) (has (bvand (pR p) (cB p)) #x3f))
       (=> (not (= (bvand (cas p) #x08) #x00)) (has (bvand (pR p) (cB p)) #x38))))
; target directly behind an enemy pawn that could just have double-pushed
(define-fun epOK ((p Pos)) Bool
  (or (= (ep p) #x00)
      (ite (= (stm p) #x00)
           (and (= (rankOf (ep p)) #x05)
                (has (bvand (pP p) (cB p)) (bvsub (ep p) #x08))
                (not (has (occOf p) (ep p))) (not (has (occOf p) (bvadd (ep p) #x08))))
           (and (= (rankOf (ep p)) #x02)
                (has (bvand (pP p) (cW p)) (bvadd (ep p) #x08))
                (not (has (occOf p) (ep p))) (not (has (occOf p) (bvsub (ep p) #x08)))))))
(define-fun validPos ((p Pos)) Bool
  (and (wfPos p)
       (onehot (kingOf p #x00)) (onehot (kingOf p #x01))
       (= (bvand (pP p) (bvor rank1 rank8)) bb0)
       (not (inCheck p (other (stm p))))
       (rightsOK p) (epOK p)))

; ------------------------------------------------------------------ pseudo-legal moves (art. 3)
(define-fun emptyAll ((p Pos) (m BB)) Bool (= (bvand (occOf p) m) bb0))
(define-fun castleOK ((p Pos) (bit B8) (empt BB) (safe BB)) Bool
  (and (not (= (bvand (cas p) bit) #x00)) (emptyAll p empt)
       (= (bvand (attackedSet p (other (stm p)) (occOf p)) safe) bb0)))
(define-fun castle ((p Pos) (f Sq) (t Sq)) Bool
  (ite (= (stm p) #x00)
       (or (and (= f #x04) (= t #x06) (castleOK p #x01 #x0000000000000060 #x0000000000000070))
           (and (= f #x04) (= t #x02) (castleOK p #x02 #x000000000000000e #x000000000000001c)))
       (or (and (= f #x3c) (= t #x3e) (castleOK p #x04 #x6000000000000000 #x7000000000000000))
           (and (= f #x3c) (= t #x3a) (castleOK p #x08 #x0e00000000000000 #x1c00000000000000)))))
(define-fun lastRank ((c B8) (t Sq)) Bool (ite (= c #x00) (= (rankOf t) #x07) (= (rankOf t) #x00)))
(define-fun startRank ((c B8) (f Sq)) Bool (ite (= c #x00) (= (rankOf f) #x01) (= (rankOf f) #x06)))
(define-fun pawnMove ((p Pos) (f Sq) (t Sq)) Bool
  (let ((c (stm p)) (occ (occOf p)))
  (let ((mid (ite (= c #x00) (bvadd f #x08) (bvsub f #x08))))
    (or (and (pawnPush1 c f t) (not (has occ t)))
        (and (startRank c f) (= t (ite (= c #x00) (bvadd f #x10) (bvsub f #x10)))
             (not (has occ mid)) (not (has occ t)))
        (and (pawnAtt c f t)
             (or (has (colSet p (other c)) t) (and (not (= (ep p) #x00)) (= t (ep p)))))))))
(define-fun pseudo ((p Pos) (m Mv)) Bool
  (let ((f (mvFrom m)) (t (mvTo m)) (pr (mvPromo m)) (me (colSet p (stm p))) (occ (occOf p)))
  (let ((pc (pieceAt p f)))
    (and (mvOK m) (has me f) (not (has me t))
         (ite (= pc #x01)
              (and (pawnMove p f t)
                   (ite (lastRank (stm p) t) (and (bvuge pr #x02) (bvule pr #x05)) (= pr #x00)))
              (and (= pr #x00)
                   (ite (= pc #x02) (has (knightSet (sqbit f)) t)
                   (ite (= pc #x03) (has (bishopSet (sqbit f) occ) t)
                   (ite (= pc #x04) (has (rookSet (sqbit f) occ) t)
                   (ite (= pc #x05) (has (bvor (rookSet (sqbit f) occ) (bishopSet (sqbit f) occ)) t)
                   (ite (= pc #x06) (or (has (kingSet (sqbit f)) t) (castle p f t))
                        false)))))))))))

; ------------------------------------------------------------------ making a move (art. 3, 9.3, 9.6)
(define-fun isEP ((p Pos) (m Mv)) Bool
  (and (= (pieceAt p (mvFrom m)) #x01) (not (= (ep p) #x00)) (= (mvTo m) (ep p))
       (not (= (fileOf (mvFrom m)) (fileOf (mvTo m))))))
(define-fun capSq ((p Pos) (m Mv)) Sq
  (ite (isEP p m) (mkSq (fileOf (mvTo m)) (rankOf (mvFrom m))) (mvTo m)))
(define-fun clr ((b BB) (s Sq)) BB (bvand b (bvnot (sqbit s))))
(define-fun put ((b BB) (on Bool) (s Sq)) BB (ite on (bvor b (sqbit s)) b))
(define-fun rookFrom ((f Sq) (t Sq)) Sq (ite (bvugt t f) (bvadd f #x03) (bvsub f #x04)))
(define-fun rookTo   ((f Sq) (t Sq)) Sq (ite (bvugt t f) (bvadd f #x01) (bvsub f #x01)))
(define-fun isCastle ((p Pos) (m Mv)) Bool
  (and (= (pieceAt p (mvFrom m)) #x06) (= (absd (fileOf (mvFrom m)) (fileOf (mvTo m))) #x02)))
(define-fun touches ((m Mv) (s Sq)) Bool (or (= (mvFrom m) s) (= (mvTo m) s)))
(define-fun lostRights ((p Pos) (m Mv)) B8
  (bvor (ite (= (pieceAt p (mvFrom m)) #x06) (ite (= (stm p) #x00) #x03 #x0c) #x00)
        (ite (touches m #x07) #x01 #x00) (ite (touches m #x00) #x02 #x00)
        (ite (touches m #x3f) #x04 #x00) (ite (touches m #x38) #x08 #x00)))
; everything but the e.p. target (which needs legality in the successor)
(define-fun moved ((b BB) (cs Sq) (f Sq) (t Sq) (on Bool)) BB (put (clr (clr (clr b cs) f) t) on t))
(define-fun succCore ((p Pos) (m Mv) (newEp B8)) Pos
  (let ((f (mvFrom m)) (t (mvTo m)) (pr (mvPromo m)) (c (stm p)) (cs (capSq p m))
        (pc (pieceAt p (mvFrom m))) (cap (pieceAt p (capSq p m))) (cst (isCastle p m))
        (rf (rookFrom (mvFrom m) (mvTo m))) (rt (rookTo (mvFrom m) (mvTo m))))
  (let ((np (ite (= pr #x00) pc pr))
        (me1 (bvor (clr (colSet p c) f) (sqbit t)))
        (op1 (clr (colSet p (other c)) cs)))
  (let ((me2 (ite cst (bvor (clr me1 rf) (sqbit rt)) me1))
        (rk0 (moved (pR p) cs f t (= np #x04))))
  (let ((rk (ite cst (bvor (clr rk0 rf) (sqbit rt)) rk0)))
    (mkPos (moved (pP p) cs f t (= np #x01))
           (moved (pN p) cs f t (= np #x02))
           (moved (pB p) cs f t (= np #x03))
           rk
           (moved (pQ p) cs f t (= np #x05))
           (moved (pK p) cs f t (= np #x06))
           (ite (= c #x00) me2 op1) (ite (= c #x00) op1 me2)
           (other c) newEp (bvand (cas p) (bvnot (lostRights p m)))
           (ite (or (= pc #x01) (not (= cap #x00))) #x00 (bvadd (fifty p) #x01))
           (bvadd (full p) ((_ zero_extend 56) c))))))))
(define-fun kingSafeAfter ((p Pos) (m Mv)) Bool (not (inCheck (succCore p m #x00) (stm p))))
(define-fun legal ((p Pos) (m Mv)) Bool (and (pseudo p m) (kingSafeAfter p m)))

(define-fun isDouble ((p Pos) (m Mv)) Bool
  (and (= (pieceAt p (mvFrom m)) #x01) (= (absd (rankOf (mvFrom m)) (rankOf (mvTo m))) #x02)))
(define-fun midSq ((m Mv)) Sq (bvlshr (bvadd (mvFrom m) (mvTo m)) #x01))
(define-fun mkMv ((f Sq) (t Sq)) Mv (concat #b0000 ((_ extract 5 0) f) ((_ extract 5 0) t)))
; art. 9.2.3 / property C02: the target is recorded iff some e.p. capture is legal in the successor
(define-fun existsLegalEP ((p Pos) (m Mv)) Bool
  (let ((q (succCore p m (midSq m))) (t (mvTo m)))
    (or (and (not (= (fileOf t) #x00)) (legal q (mkMv (bvsub t #x01) (midSq m)))
             (= (pieceAt q (bvsub t #x01)) #x01))
        (and (not (= (fileOf t) #x07)) (legal q (mkMv (bvadd t #x01) (midSq m)))
             (= (pieceAt q (bvadd t #x01)) #x01)))))
(define-fun succ ((p Pos) (m Mv)) Pos
  (succCore p m (ite (and (isDouble p m) (existsLegalEP p m)) (midSq m) #x00)))

; ------------------------------------------------------------------ local conditions for making a move
; lightPos: the part of validity that move making depends on (no attack computation)
(define-fun lightPos ((p Pos)) Bool
  (and (wfPos p) (onehot (kingOf p #x00)) (onehot (kingOf p #x01))
       (= (bvand (pP p) (bvor rank1 rank8)) bb0) (rightsOK p) (epOK p)))
(define-fun castlePattern ((p Pos) (f Sq) (t Sq)) Bool
  (let ((me (colSet p (stm p))) (occ (occOf p)))
  (ite (= (stm p) #x00)
       (or (and (= f #x04) (= t #x06) (has (bvand (pR p) me) #x07) (not (has occ #x05)) (not (has occ #x06)))
           (and (= f #x04) (= t #x02) (has (bvand (pR p) me) #x00) (not (has occ #x03)) (not (has occ #x02))))
       (or (and (= f #x3c) (= t #x3e) (has (bvand (pR p) me) #x3f) (not (has occ #x3d)) (not (has occ #x3e)))
           (and (= f #x3c) (= t #x3a) (has (bvand (pR p) me) #x38) (not (has occ #x3b)) (not (has occ #x3a)))))))
; movable: what MakeMove needs of a move (implied by pseudo-legality in a valid position, lemma movableFromPseudo)
(define-fun movable ((p Pos) (m Mv)) Bool
  (let ((f (mvFrom m)) (t (mvTo m)) (pr (mvPromo m)) (me (colSet p (stm p))) (opp (colSet p (other (stm p)))) (occ (occOf p)))
  (let ((pc (pieceAt p f)) (cs (capSq p m)))
    (and (mvOK m) (has me f) (not (has me t))
         (or (= pr #x00) (and (= pc #x01) (bvuge pr #x02) (bvule pr #x05)))
         ; en passant: a pawn arriving on the target square captures the pawn behind it
         (=> (and (= pc #x01) (not (= (ep p) #x00)) (= t (ep p)))
             (and (not (= (fileOf f) (fileOf t))) (= (rankOf f) (rankOf cs)) (has (bvand (pP p) opp) cs) (not (has occ t))))
         ; a double push starts on the pawn's home rank and crosses an empty square onto an empty square
         (=> (and (= pc #x01) (= (absd (rankOf f) (rankOf t)) #x02))
             (and (= (fileOf f) (fileOf t)) (startRank (stm p) f) (not (has occ t)) (not (has occ (midSq m)))))
         (=> (= pc #x01) (bvule (absd (rankOf f) (rankOf t)) #x02))
         ; a king moving two files is one of the four castling moves with its rook in the corner
         (=> (and (= pc #x06) (= (absd (fileOf f) (fileOf t)) #x02)) (castlePattern p f t))
         (=> (= pc #x06) (bvule (absd (fileOf f) (fileOf t)) #x02))))))

; the position without its two move counters (legality and validity do not depend on them: lemma clocksIrrelevant)
(define-fun noClocks ((p Pos)) Pos
  (mkPos (pP p) (pN p) (pB p) (pR p) (pQ p) (pK p) (cW p) (cB p) (stm p) (ep p) (cas p) #x00 #x0000000000000000))

; a witness move from f to t: promotes to a queen when a pawn reaches its last rank
(define-fun witMove ((p Pos) (f Sq) (t Sq)) Mv
  (ite (and (= (pieceAt p f) #x01) (lastRank (stm p) t))
       (concat #b0101 ((_ extract 5 0) f) ((_ extract 5 0) t))
       (mkMv f t)))

; engine-normalised e.p. state (quantifier of C09): a target is recorded only if some e.p. capture is legal.
; The capturing pawn stands on the rank next to the target, on an adjacent file (two candidate squares).
(define-fun epCand ((p Pos) (left Bool)) Sq
  (let ((t (ep p)))
    (ite (= (stm p) #x00) (ite left (bvsub t #x09) (bvsub t #x07)) (ite left (bvadd t #x07) (bvadd t #x09)))))
(define-fun epCandOK ((p Pos) (left Bool)) Bool
  (let ((f (epCand p left)) (t (ep p)))
    (and (ite left (not (= (fileOf t) #x00)) (not (= (fileOf t) #x07)))
         (= (pieceAt p f) #x01) (has (colSet p (stm p)) f) (legal p (mkMv f t)))))
(define-fun epNormal ((p Pos)) Bool (or (= (ep p) #x00) (epCandOK p true) (epCandOK p false)))


; ------------------------------------------------------------------ pieces attacking / reaching a square
; pieces of colour c that attack square t when the occupancy is occ (looked up from the target square;
; by the symmetry of the attack relations this is the set of attackers in the forward sense, lemma attackersToForward)
(define-fun attackersTo ((p Pos) (c B8) (occ BB) (t Sq)) BB
  (bvand (colSet p c)
    (bvor (bvand (kingSet (sqbit t)) (pK p))
          (bvand (knightSet (sqbit t)) (pN p))
          (bvand (bishopWalk t occ) (bvor (pB p) (pQ p)))
          (bvand (rookWalk t occ) (bvor (pR p) (pQ p)))
          (bvand (pawnAttSet (other c) (sqbit t)) (pP p)))))
; non-pawn, non-king pieces of colour c that can move to square t when the occupancy is occ (looked up
; from the target square; forward reading: lemma reachersForward)
(define-fun reachersTo ((p Pos) (c B8) (occ BB) (t Sq)) BB
  (bvand (colSet p c)
    (bvor (bvand (knightSet (sqbit t)) (pN p))
          (bvand (bishopWalk t occ) (bvor (pB p) (pQ p)))
          (bvand (rookWalk t occ) (bvor (pR p) (pQ p))))))
; pieces of colour c (king excluded) that can move onto one of the EMPTY squares sq without capturing
; (art. 3.2-3.7): knights and sliders by their moves, pawns by a single or a double step
(define-fun blockSet ((p Pos) (c B8) (sq BB)) BB
  (let ((occ (occOf p)) (me (colSet p c)) (back (other c)))
  (let ((mid (bvand (pawnPushSet back (bvand sq (ite (= c #x00) #x00000000ff000000 #x000000ff00000000))) (bvnot occ))))
    (bvand me
      (bvor (bvand (knightSet sq) (pN p))
            (bvand (bishopSet sq occ) (bvor (pB p) (pQ p)))
            (bvand (rookSet sq occ) (bvor (pR p) (pQ p)))
            (bvand (bvor (pawnPushSet back sq) (pawnPushSet back mid)) (pP p)))))))
