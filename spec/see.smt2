; see.smt2 -- the capture-sequence game that the static exchange evaluation approximates (property C18).
; Written from the property statement: both sides alternately capture on the target square t with a
; least valuable attacker (pawn, knight, bishop, rook, queen, king), may stop at any point, x-ray
; attackers join as lines open (attackers are recomputed from the remaining occupancy), the king
; captures only when no enemy attacker remains, pins and promotions by recapturing pawns are ignored.
; Among equally valued least attackers the one on the lowest square is taken ("for some choice").
;
; seeY(p, occ, c, t): side c is to move, occ is what is left on the board.  It is the amount the
; *other* side is certain to keep of the piece standing on t if c recaptures with its least valuable
; attacker a (value va) and play continues optimally:  max(0, va - seeY(occ \ a, other c)),
; or seeINF if c has no (usable) attacker.  The gain of the side to move for a piece of value v on t is
; then max(0, v - seeY).  seeY is defined by recursion on occ (it strictly shrinks): axiom seeUnfold.
(define-sort I16 () (_ BitVec 16))
(define-fun seeINF () I16 #x7530)   ; 30000, above every material value
(declare-fun seeYu (Pos BB B8 Sq) I16)
; values are 0..900 or seeINF by construction
(define-fun seeY ((p Pos) (occ BB) (c B8) (t Sq)) I16
  (let ((x (seeYu p occ c t))) (ite (and (bvsle #x0000 x) (bvsle x #x0384)) x seeINF)))
(define-fun lsb64 ((x BB)) BB (bvand x (bvneg x)))
(define-fun max0 ((x I16)) I16 (ite (bvslt x #x0000) #x0000 x))
; every piece still on the board that attacks t, given what is left on the board
(define-fun seeAtt ((p Pos) (occ BB) (t Sq)) BB
  (bvand occ (bvor (attackersTo p #x00 occ t) (attackersTo p #x01 occ t))))
(define-fun seeNext ((p Pos) (occ BB) (c B8) (t Sq) (cls BB) (val I16)) I16
  (max0 (bvsub val (seeY p (bvand occ (bvnot (lsb64 (bvand (seeAtt p occ t) (colSet p c) cls)))) (other c) t))))
(define-fun seeRHS ((p Pos) (occ BB) (c B8) (t Sq)) I16
  (let ((mine (bvand (seeAtt p occ t) (colSet p c))) (theirs (bvand (seeAtt p occ t) (colSet p (other c)))))
    (ite (= mine bb0) seeINF
    (ite (not (= (bvand mine (pP p)) bb0)) (seeNext p occ c t (pP p) #x0064)
    (ite (not (= (bvand mine (pN p)) bb0)) (seeNext p occ c t (pN p) #x012c)
    (ite (not (= (bvand mine (pB p)) bb0)) (seeNext p occ c t (pB p) #x012c)
    (ite (not (= (bvand mine (pR p)) bb0)) (seeNext p occ c t (pR p) #x01f4)
    (ite (not (= (bvand mine (pQ p)) bb0)) (seeNext p occ c t (pQ p) #x0384)
    (ite (not (= theirs bb0)) seeINF #x0000)))))))))
(define-fun seeUnfoldOK ((p Pos) (occ BB) (c B8) (t Sq)) Bool (= (seeY p occ c t) (seeRHS p occ c t)))
; material values used for exchanges (index = piece code)
(define-fun seeVal ((k B8)) I16
  (ite (= k #x01) #x0064 (ite (= k #x02) #x012c (ite (= k #x03) #x012c (ite (= k #x04) #x01f4 (ite (= k #x05) #x0384 (ite (= k #x06) #x2710 #x0000)))))))
; the exchange value of move m is at least thr
(define-fun seeSpec ((p Pos) (m Mv) (thr I16)) Bool
  (let ((f (mvFrom m)) (t (mvTo m)) (cs (capSq p m)) (pr (mvPromo m)))
  (let ((promoVal (ite (= pr #x00) #x0000 (bvsub (seeVal pr) #x0064)))
        (occ0 (ite (isEP p m) (bvand (bvxor (occOf p) (sqbit f)) (bvnot (sqbit cs))) (bvxor (occOf p) (sqbit f)))))
  (let ((gain0 (bvadd (seeVal (pieceAt p cs)) promoVal)) (v0 (bvadd (seeVal (pieceAt p f)) promoVal)))
    (bvsge (bvsub gain0 (max0 (bvsub v0 (seeY p occ0 (other (stm p)) t)))) thr)))))
