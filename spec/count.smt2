; count.smt2 -- occurrence counting in a hash history (specification for property C10)
;
; occCount(a, t, i) is the number of indices j in {i, i-2, i-4, ...} with j >= 0 and a[j] = t.
; It is introduced as an uninterpreted function whose inductive definition is supplied, instance by
; instance, through the axioms occUnfold / occRange of the board contract file (both are the
; definition itself and its obvious range consequence; they are listed as trusted in evidence).
(define-sort HashArr () (Array (_ BitVec 64) (_ BitVec 64)))
(declare-fun occCount (HashArr (_ BitVec 64) (_ BitVec 64)) (_ BitVec 64))
(define-fun occUnfoldOK ((a HashArr) (t (_ BitVec 64)) (i (_ BitVec 64))) Bool
  (= (occCount a t i)
     (ite (bvslt i #x0000000000000000) #x0000000000000000
          (bvadd (ite (= (select a i) t) #x0000000000000001 #x0000000000000000)
                 (occCount a t (bvsub i #x0000000000000002))))))
(define-fun occRangeOK ((a HashArr) (t (_ BitVec 64)) (i (_ BitVec 64))) Bool
  (and (bvsle #x0000000000000000 (occCount a t i)) (bvsle (occCount a t i) #x0000010000000000)))
