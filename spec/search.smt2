; search.smt2 -- abstraction of the board used by the search-level contracts (properties C06, C07, C08)
;
; BS is the tuple of every scalar attribute of a board (piece map, piece sets, colour sets, length of the
; hash history, both counters, side to move, e.p. target, castling rights).  A datatype constructor is
; injective, so equality of two BS values is field-wise equality of the boards.  The contents of the hash
; history are handled separately (pointwise, with a ghost index).
;
; mkS / tokS / unmkS name the functions computed by MakeMove (post-state, token) and UndoMove; nullS /
; nullTok / unnullS likewise for the null move.  The only facts assumed about them are the round-trip
; axioms below, which are exactly property C03 (scenarios board.makeUndo and board.nullMoveRoundTrip).
(define-sort B8 () (_ BitVec 8))
(define-sort BB () (_ BitVec 64))
(define-sort Mv () (_ BitVec 16))
(declare-datatypes ((BS 0)) (((mkBS (stp0 B8) (stp1 B8) (stp2 B8) (stp3 B8) (stp4 B8) (stp5 B8) (stp6 B8) (stp7 B8) (stp8 B8) (stp9 B8) (stp10 B8) (stp11 B8) (stp12 B8) (stp13 B8) (stp14 B8) (stp15 B8) (stp16 B8) (stp17 B8) (stp18 B8) (stp19 B8) (stp20 B8) (stp21 B8) (stp22 B8) (stp23 B8) (stp24 B8) (stp25 B8) (stp26 B8) (stp27 B8) (stp28 B8) (stp29 B8) (stp30 B8) (stp31 B8) (stp32 B8) (stp33 B8) (stp34 B8) (stp35 B8) (stp36 B8) (stp37 B8) (stp38 B8) (stp39 B8) (stp40 B8) (stp41 B8) (stp42 B8) (stp43 B8) (stp44 B8) (stp45 B8) (stp46 B8) (stp47 B8) (stp48 B8) (stp49 B8) (stp50 B8) (stp51 B8) (stp52 B8) (stp53 B8) (stp54 B8) (stp55 B8) (stp56 B8) (stp57 B8) (stp58 B8) (stp59 B8) (stp60 B8) (stp61 B8) (stp62 B8) (stp63 B8) (pc0 BB) (pc1 BB) (pc2 BB) (pc3 BB) (pc4 BB) (pc5 BB) (pc6 BB) (col0 BB) (col1 BB) (hlen BB) (fullm BB) (bstm B8) (bep B8) (bcas B8) (bfifty B8)))))
(declare-fun mkS (BS Mv) BS)
(declare-fun tokS (BS Mv) BB)
(declare-fun unmkS (BS Mv BB) BS)
(declare-fun nullS (BS) BS)
(declare-fun nullTok (BS) BB)
(declare-fun unnullS (BS BB) BS)

; ---- principal variations (property C07)
; accS(s, m): the legality filter of the search accepts m in state s (the move is made and the mover's
; king is not attacked afterwards).  lineS(s, a, off, n): the n moves a[off], a[off+1], ... are
; accepted in order, each in the state reached by the previous ones.  lineS is defined by recursion on
; n (axioms lineNil / lineCons in search/contracts_verif.go).
(define-sort MvArr () (Array (_ BitVec 64) (_ BitVec 16)))
(declare-fun inCheckS (BS B8) Bool)   ; names the answer of Board.InCheck(who) as a function of the board state
(define-fun accS ((s BS) (m Mv)) Bool (not (inCheckS (mkS s m) (bvxor (bstm (mkS s m)) #x01))))
(declare-fun lineS (BS MvArr (_ BitVec 64) (_ BitVec 64)) Bool)
(define-fun lineNilOK ((s BS) (a MvArr) (off (_ BitVec 64))) Bool (lineS s a off #x0000000000000000))
(define-fun lineConsOK ((s BS) (a MvArr) (off (_ BitVec 64)) (n (_ BitVec 64))) Bool
  (=> (bvsgt n #x0000000000000000)
      (= (lineS s a off n)
         (and (accS s (select a off)) (lineS (mkS s (select a off)) a (bvadd off #x0000000000000001) (bvsub n #x0000000000000001))))))
; (that a line depends only on the array segment it occupies is lemma lineSeg, proved by induction in search/contracts_verif.go)
