package main

import (
	"encoding/json"
	"fmt"
	"go/types"
	"os"
	"os/exec"
	"path/filepath"
	"regexp"
	"sort"
	"strconv"
	"strings"

	"golang.org/x/tools/go/ssa"
)

// replayGeneric executes the real function on the inputs of a counterexample, through
// `go test -overlay` (an in-package test file is injected without touching the repository), and
// compares what the real code did with what the verifier's model of the code predicted.  If they
// agree, the solver's verdict (the contract clause is false for this run) applies to the real code.
func replayGeneric(p *Program, verif string, r *Result, inputs map[string]string) map[string]interface{} {
	out := map[string]interface{}{"verdict": "no-failing-input-found"}
	u := r.Unit
	if u.Kind != "func" || u.Contract == nil {
		out["replay_note"] = "lemma obligation: no single function call to replay; counterexample values are in `model`"
		return out
	}
	kind := r.Obl.Kind
	safety := map[string]bool{"bounds": true, "div": true, "panic": true, "nil": true, "slice": true, "shift": true, "makeslice": true}
	if kind != "post" && kind != "frame" && !safety[kind] {
		out["replay_note"] = "obligation of kind " + kind + " depends on intermediate (havocked) state; inputs recorded, not replayed"
		return out
	}
	if r.Obl.Func != u.Name && safety[kind] {
		// safety obligation inside an inlined callee: still replay the top function
	}
	fn := p.funcs[u.Contract.Key]
	if fn == nil || fn.Pkg == nil {
		out["replay_note"] = "function not found"
		return out
	}
	g := &replayGen{p: p, pkg: fn.Pkg.Pkg, inputs: inputs, imports: map[string]string{}}
	var body strings.Builder
	var callArgs []string
	sig := fn.Signature
	for _, prm := range fn.Params {
		name := prm.Name()
		body.WriteString(fmt.Sprintf("\tvar %s %s\n", name, g.typeStr(prm.Type())))
		g.build(&body, prm.Type(), name, name)
		callArgs = append(callArgs, name)
		body.WriteString(fmt.Sprintf("\t_ = %s\n", name))
	}
	if g.tooBig != "" {
		out["replay_note"] = "input too large to construct: " + g.tooBig
		return out
	}
	call := ""
	if sig.Recv() != nil {
		call = fmt.Sprintf("%s.%s(%s)", callArgs[0], fn.Name(), strings.Join(callArgs[1:], ", "))
	} else {
		call = fmt.Sprintf("%s(%s)", fn.Name(), strings.Join(callArgs, ", "))
	}
	var results []string
	for i := 0; i < sig.Results().Len(); i++ {
		results = append(results, fmt.Sprintf("res%d", i))
	}
	body.WriteString("\tfunc() {\n\t\tdefer func() {\n\t\t\tif e := recover(); e != nil {\n\t\t\t\tfmt.Printf(\"GOVC-PANIC %v\\n\", e)\n\t\t\t}\n\t\t}()\n")
	if len(results) > 0 {
		body.WriteString("\t\t" + strings.Join(results, ", ") + " := " + call + "\n")
	} else {
		body.WriteString("\t\t" + call + "\n")
	}
	for i := range results {
		pth := "result"
		if len(results) > 1 {
			pth = fmt.Sprintf("result#%d", i)
		}
		g.dump(&body, sig.Results().At(i).Type(), results[i], pth, "\t\t")
	}
	for _, prm := range fn.Params {
		if _, isPtr := prm.Type().Underlying().(*types.Pointer); isPtr {
			g.dump(&body, prm.Type(), prm.Name(), "post:"+prm.Name(), "\t\t")
		}
	}
	body.WriteString("\t\tfmt.Println(\"GOVC-DONE\")\n\t}()\n")

	var src strings.Builder
	src.WriteString("package " + fn.Pkg.Pkg.Name() + "\n\nimport (\n\t\"fmt\"\n\t\"testing\"\n")
	var imps []string
	for path, alias := range g.imports {
		imps = append(imps, fmt.Sprintf("\t%s %q\n", alias, path))
	}
	sort.Strings(imps)
	for _, l := range imps {
		src.WriteString(l)
	}
	src.WriteString(")\n\nfunc TestGovcReplay(t *testing.T) {\n")
	src.WriteString(body.String())
	src.WriteString("}\n")

	relPkg := strings.TrimPrefix(strings.TrimPrefix(fn.Pkg.Pkg.Path(), strings.TrimSuffix(modulePrefix, "/")), "/")
	dir := filepath.Join(verif, "replays", firstProp(u), sanitize(r.Obl.Name+"_"+r.Case)+".d")
	os.MkdirAll(dir, 0o755)
	testFile := filepath.Join(dir, "govc_replay_test.go")
	os.WriteFile(testFile, []byte(src.String()), 0o644)
	target := filepath.Join(p.repo, relPkg, "zz_govc_replay_test.go")
	ov, _ := json.Marshal(map[string]interface{}{"Replace": map[string]string{target: testFile}})
	ovFile := filepath.Join(dir, "overlay.json")
	os.WriteFile(ovFile, ov, 0o644)
	cmd := exec.Command("go", "test", "-overlay", ovFile, "-vet=off", "-count=1", "-v", "-timeout", "60s", "-run", "^TestGovcReplay$", "./"+relPkg+"/")
	if relPkg == "" {
		cmd = exec.Command("go", "test", "-overlay", ovFile, "-vet=off", "-count=1", "-v", "-timeout", "60s", "-run", "^TestGovcReplay$", ".")
	}
	cmd.Dir = p.repo
	cmd.Env = append(os.Environ(), "GOFLAGS=-mod=mod", "GOPROXY=off")
	outb, err := cmd.CombinedOutput()
	text := string(outb)
	out["replay_test"] = testFile
	out["replay_cmd"] = strings.Join(cmd.Args, " ")
	out["replay_output"] = truncate(text, 3000)
	if err != nil && !strings.Contains(text, "GOVC-") {
		out["replay_note"] = "replay harness failed to build or run"
		out["verdict"] = "no-failing-input-found"
		return out
	}
	real := map[string]string{}
	for _, m := range regexp.MustCompile(`(?m)^GOVC-OUT (\S+) (\S+)$`).FindAllStringSubmatch(text, -1) {
		real[m[1]] = m[2]
	}
	panicked := strings.Contains(text, "GOVC-PANIC")
	out["real_outputs"] = real
	out["real_panicked"] = panicked
	if safety[kind] {
		if panicked {
			out["verdict"] = "reproduced"
			out["replay_note"] = "the real code panics on this input"
		} else {
			out["replay_note"] = "the real code did not panic on this input"
		}
		return out
	}
	if panicked {
		out["replay_note"] = "the real code panicked on this input"
		return out
	}
	// compare predicted outputs with real outputs
	pred := map[string]string{}
	for _, o := range u.VC.Outputs {
		if v, ok := r.Model[o.Name]; ok {
			pred[o.Path] = v
		}
	}
	out["predicted_outputs"] = pred
	mismatch := []string{}
	compared := 0
	for path, pv := range pred {
		rv, ok := real[path]
		if !ok {
			continue
		}
		compared++
		if normHex(pv) != normHex(rv) {
			mismatch = append(mismatch, fmt.Sprintf("%s: predicted %s real %s", path, pv, rv))
		}
	}
	sort.Strings(mismatch)
	out["compared_outputs"] = compared
	if compared == 0 {
		out["replay_note"] = "no comparable outputs"
		return out
	}
	if len(mismatch) == 0 {
		out["verdict"] = "reproduced"
		out["replay_note"] = "the real code's outputs equal the outputs the verifier derived for this input, for which the clause is false"
	} else {
		out["mismatch"] = mismatch
		out["replay_note"] = "the real code's outputs differ from the verifier's prediction (model depends on abstracted callee results or unmodelled inputs)"
	}
	return out
}

func normHex(s string) string {
	switch s {
	case "true":
		return "1"
	case "false":
		return "0"
	}
	var v uint64
	if strings.HasPrefix(s, "#x") {
		v, _ = strconv.ParseUint(s[2:], 16, 64)
	} else if strings.HasPrefix(s, "#b") {
		v, _ = strconv.ParseUint(s[2:], 2, 64)
	} else if strings.HasPrefix(s, "0x") {
		v, _ = strconv.ParseUint(s[2:], 16, 64)
	} else {
		v, _ = strconv.ParseUint(s, 10, 64)
	}
	return strconv.FormatUint(v, 16)
}

type replayGen struct {
	p       *Program
	pkg     *types.Package
	inputs  map[string]string
	imports map[string]string
	tooBig  string
}

func (g *replayGen) typeStr(t types.Type) string {
	return types.TypeString(t, func(p *types.Package) string {
		if p == g.pkg {
			return ""
		}
		alias := "x_" + p.Name()
		g.imports[p.Path()] = alias
		return alias
	})
}

func (g *replayGen) value(path string) (uint64, bool) {
	s, ok := g.inputs[path]
	if !ok {
		return 0, false
	}
	switch s {
	case "true":
		return 1, true
	case "false":
		return 0, true
	}
	if strings.HasPrefix(s, "#x") {
		v, _ := strconv.ParseUint(s[2:], 16, 64)
		return v, true
	}
	v, _ := strconv.ParseUint(s[2:], 2, 64)
	return v, true
}

// build emits assignments that construct the input value at Go expression `expr` (model path `path`).
func (g *replayGen) build(sb *strings.Builder, t types.Type, expr, path string) {
	if w, signed, isBool, ok := basicInfo(t); ok {
		v, has := g.value(path)
		if !has {
			return
		}
		if isBool {
			sb.WriteString(fmt.Sprintf("\t%s = %v\n", expr, v != 0))
			return
		}
		if signed {
			sv := int64(v)
			if w < 64 && v&(1<<uint(w-1)) != 0 {
				sv = int64(v | (^uint64(0) << uint(w)))
			}
			sb.WriteString(fmt.Sprintf("\t%s = %s(%d)\n", expr, g.typeStr(t), sv))
		} else {
			sb.WriteString(fmt.Sprintf("\t%s = %s(%d)\n", expr, g.typeStr(t), v))
		}
		return
	}
	switch u := t.Underlying().(type) {
	case *types.Struct:
		for i := 0; i < u.NumFields(); i++ {
			f := u.Field(i)
			g.build(sb, f.Type(), expr+"."+f.Name(), path+"."+f.Name())
		}
	case *types.Array:
		if isBigArray(u) {
			return
		}
		for i := int64(0); i < u.Len(); i++ {
			g.build(sb, u.Elem(), fmt.Sprintf("%s[%d]", expr, i), fmt.Sprintf("%s[%d]", path, i))
		}
	case *types.Pointer:
		sb.WriteString(fmt.Sprintf("\t%s = new(%s)\n", expr, g.typeStr(u.Elem())))
		if _, isStruct := u.Elem().Underlying().(*types.Struct); isStruct {
			g.build(sb, u.Elem(), expr, path)
		} else {
			g.build(sb, u.Elem(), "(*"+expr+")", path)
		}
	case *types.Slice:
		ln, ok1 := g.value(path + ".len")
		cp, ok2 := g.value(path + ".cap")
		if !ok1 {
			return
		}
		if !ok2 || cp < ln {
			cp = ln
		}
		if cp > 1<<16 {
			cp = ln // capacity is irrelevant beyond the length for everything but append's reallocation
		}
		if ln > 1<<20 {
			g.tooBig = fmt.Sprintf("%s has len %d cap %d", path, ln, cp)
			return
		}
		sb.WriteString(fmt.Sprintf("\t%s = make(%s, %d, %d)\n", expr, g.typeStr(t), ln, cp))
	}
}

// dump emits code printing every scalar leaf of the value at expr.
func (g *replayGen) dump(sb *strings.Builder, t types.Type, expr, path, ind string) {
	if _, _, isBool, ok := basicInfo(t); ok {
		if isBool {
			sb.WriteString(fmt.Sprintf("%sfmt.Printf(\"GOVC-OUT %s %%v\\n\", map[bool]int{false: 0, true: 1}[bool(%s)])\n", ind, path, expr))
		} else {
			w, _, _, _ := basicInfo(t)
			sb.WriteString(fmt.Sprintf("%sfmt.Printf(\"GOVC-OUT %s 0x%%x\\n\", uint%d(%s))\n", ind, path, w, expr))
		}
		return
	}
	switch u := t.Underlying().(type) {
	case *types.Struct:
		for i := 0; i < u.NumFields(); i++ {
			f := u.Field(i)
			g.dump(sb, f.Type(), expr+"."+f.Name(), path+"."+f.Name(), ind)
		}
	case *types.Array:
		if isBigArray(u) {
			return
		}
		for i := int64(0); i < u.Len(); i++ {
			g.dump(sb, u.Elem(), fmt.Sprintf("%s[%d]", expr, i), fmt.Sprintf("%s[%d]", path, i), ind)
		}
	case *types.Pointer:
		if _, isStruct := u.Elem().Underlying().(*types.Struct); isStruct {
			sb.WriteString(fmt.Sprintf("%sif %s != nil {\n", ind, expr))
			g.dump(sb, u.Elem(), expr, path, ind+"\t")
			sb.WriteString(ind + "}\n")
		}
	case *types.Slice:
		sb.WriteString(fmt.Sprintf("%sfmt.Printf(\"GOVC-OUT %s.len 0x%%x\\n\", len(%s))\n", ind, path, expr))
	}
}

var _ = ssa.BuilderMode(0)

func firstProp(u *Unit) string {
	if currentProp != "" {
		return currentProp
	}
	if len(u.Props) > 0 {
		return u.Props[0]
	}
	return "misc"
}

var currentProp string
