package main

import (
	"fmt"
	"strings"
)

// Obligation is one proof obligation: under the declarations and assumptions that were in force
// when it was emitted, Guard implies Goal.
type Obligation struct {
	Name    string
	Kind    string // post, pre, inv-entry, inv-preserved, bounds, nil, div, panic, conv, frame, unwind, lemma, split, structure, cover
	Func    string
	Guard   T
	Goal    T
	nDecls  int
	nAssume int
	Src     string // source of the contract clause / instruction
	Pos     string
	Cover   bool // expected answer is sat (vacuity guard)
	Timeout int
	Bounded string
}

// VC accumulates declarations, assumptions and obligations for one verification unit.
type VC struct {
	Unit     string
	decls    []string
	assumes  []T
	assumeSrc []string
	Obls     []*Obligation
	ctr      int
	defCache map[string]T
	Inputs   []InputConst // input constants for replay
	Splits   []SplitCase
	Outputs  []InputConst // named output terms (results, final pointee leaves) for replay comparison
	Notes    []string // assumptions made by the translation (reported in evidence)
	notesSet map[string]bool
}

type InputConst struct {
	Name string // SMT name
	Path string // readable path e.g. b.Pieces[1]
	Sort string
	Idx  int // number of declarations after which it exists
}

type SplitCase struct {
	Term T
	Lo, Hi int64
	Src  string
}

func newVC(unit string) *VC {
	return &VC{Unit: unit, defCache: map[string]T{}, notesSet: map[string]bool{}}
}

func (vc *VC) note(s string) {
	if !vc.notesSet[s] {
		vc.notesSet[s] = true
		vc.Notes = append(vc.Notes, s)
	}
}

func sanitize(s string) string {
	var sb strings.Builder
	for _, r := range s {
		switch {
		case r >= 'a' && r <= 'z', r >= 'A' && r <= 'Z', r >= '0' && r <= '9', r == '_', r == '.':
			sb.WriteRune(r)
		default:
			sb.WriteByte('_')
		}
	}
	return sb.String()
}

// fresh declares a new constant.
func (vc *VC) fresh(hint, sort string) T {
	vc.ctr++
	name := fmt.Sprintf("%s!%d", sanitize(hint), vc.ctr)
	vc.decls = append(vc.decls, fmt.Sprintf("(declare-const %s %s)", name, sort))
	return T{name, sort}
}

// input declares a new constant that is an input of the unit (reported in counterexamples).
func (vc *VC) input(path, sort string) T {
	t := vc.fresh(path, sort)
	vc.Inputs = append(vc.Inputs, InputConst{t.S, path, sort, len(vc.decls)})
	return t
}

// def names a term (returns atoms unchanged).
func (vc *VC) def(hint string, t T) T {
	if isAtom(t) {
		return t
	}
	key := t.Sort + "|" + t.S
	if c, ok := vc.defCache[key]; ok {
		return c
	}
	vc.ctr++
	name := fmt.Sprintf("%s!%d", sanitize(hint), vc.ctr)
	vc.decls = append(vc.decls, fmt.Sprintf("(define-fun %s () %s %s)", name, t.Sort, t.S))
	r := T{name, t.Sort}
	vc.defCache[key] = r
	return r
}

func (vc *VC) assume(t T, src string) {
	if t.S == "true" {
		return
	}
	vc.assumes = append(vc.assumes, t)
	vc.assumeSrc = append(vc.assumeSrc, src)
}

func (vc *VC) oblige(o *Obligation) {
	o.nDecls = len(vc.decls)
	o.nAssume = len(vc.assumes)
	vc.Obls = append(vc.Obls, o)
}

// Query renders the SMT-LIB text of an obligation (optionally restricted to one split case).
func (vc *VC) Query(o *Obligation, prelude string, splitAsserts []T, wantModel bool) string {
	var sb strings.Builder
	sb.WriteString(prelude)
	sb.WriteString("; ---- unit " + vc.Unit + " obligation " + o.Name + "\n")
	for _, d := range vc.decls[:o.nDecls] {
		sb.WriteString(d)
		sb.WriteByte('\n')
	}
	for i, a := range vc.assumes[:o.nAssume] {
		_ = i
		sb.WriteString("(assert " + a.S + ")\n")
	}
	for _, s := range splitAsserts {
		sb.WriteString("(assert " + s.S + ")\n")
	}
	if o.Cover {
		sb.WriteString("(assert " + mkAnd(o.Guard, o.Goal).S + ")\n")
	} else {
		sb.WriteString("(assert " + mkAnd(o.Guard, mkNot(o.Goal)).S + ")\n")
	}
	sb.WriteString("(check-sat)\n")
	if wantModel && len(vc.Inputs)+len(vc.Outputs) > 0 {
		sb.WriteString("(get-value (")
		for _, in := range vc.Inputs {
			if in.Idx <= o.nDecls && (strings.HasPrefix(in.Sort, "(_ BitVec") || in.Sort == BoolSort) {
				sb.WriteString(in.Name + " ")
			}
		}
		for _, out := range vc.Outputs {
			if out.Idx <= o.nDecls && (strings.HasPrefix(out.Sort, "(_ BitVec") || out.Sort == BoolSort) {
				sb.WriteString(out.Name + " ")
			}
		}
		sb.WriteString("))\n")
	}
	return sb.String()
}

// output names a term whose model value is reported for replay comparison.
func (vc *VC) output(path string, t T) {
	vc.ctr++
	name := fmt.Sprintf("out!%d", vc.ctr)
	vc.decls = append(vc.decls, fmt.Sprintf("(define-fun %s () %s %s)", name, t.Sort, t.S))
	vc.Outputs = append(vc.Outputs, InputConst{name, path, t.Sort, len(vc.decls)})
}
