package main

import (
	"fmt"
	"strings"
	"sync"
)

// Obligation is one proof obligation: under the declarations and assumptions that were in force
// when it was emitted, Guard implies Goal.
type Obligation struct {
	Name    string
	Kind    string // post, pre, inv-entry, inv-preserved, bounds, nil, div, panic, conv, frame, unwind, lemma, split, structure, cover
	Func    string
	Guard   T
	Goal    T
	nDecls  int
	nAssume int
	Src     string // source of the contract clause / instruction
	Pos     string
	Cover   bool // expected answer is sat (vacuity guard)
	Timeout int
	Bounded string
	Slow    bool // thorough tier only
	Known   *KnownFinding // this obligation is the listed input class of a known finding
}

// VC accumulates declarations, assumptions and obligations for one verification unit.
type VC struct {
	Unit     string
	decls    []string
	assumes  []T
	assumeSrc []string
	Obls     []*Obligation
	ctr      int
	defCache map[string]T
	Inputs   []InputConst // input constants for replay
	Splits   []SplitCase
	Outputs  []InputConst // named output terms (results, final pointee leaves) for replay comparison
	Notes    []string // assumptions made by the translation (reported in evidence)
	notesSet map[string]bool
	symDeps  map[string][]string
	symBase  map[string]bool
	closure  map[string]map[string]bool
	assumeBase map[int]map[string]bool
	symMu    sync.Mutex
	bodies   map[string]string
	defLen   map[string]int
	assumeSize map[int]int
}

type InputConst struct {
	Name string // SMT name
	Path string // readable path e.g. b.Pieces[1]
	Sort string
	Idx  int // number of declarations after which it exists
}

type SplitCase struct {
	Term T
	Lo, Hi int64
	Src  string
	// bit-slice split: bits [BitLo, BitHi] of the declared constant BitsOf are fixed per case
	BitsOf       string
	BitHi, BitLo int
}

func newVC(unit string) *VC {
	return &VC{Unit: unit, defCache: map[string]T{}, notesSet: map[string]bool{}}
}

func (vc *VC) note(s string) {
	if !vc.notesSet[s] {
		vc.notesSet[s] = true
		vc.Notes = append(vc.Notes, s)
	}
}

func sanitize(s string) string {
	var sb strings.Builder
	for _, r := range s {
		switch {
		case r >= 'a' && r <= 'z', r >= 'A' && r <= 'Z', r >= '0' && r <= '9', r == '_', r == '.':
			sb.WriteRune(r)
		default:
			sb.WriteByte('_')
		}
	}
	return sb.String()
}

// fresh declares a new constant.
func (vc *VC) fresh(hint, sort string) T {
	vc.ctr++
	name := fmt.Sprintf("%s!%d", sanitize(hint), vc.ctr)
	vc.decls = append(vc.decls, fmt.Sprintf("(declare-const %s %s)", name, sort))
	return T{name, sort}
}

// input declares a new constant that is an input of the unit (reported in counterexamples).
func (vc *VC) input(path, sort string) T {
	t := vc.fresh(path, sort)
	vc.Inputs = append(vc.Inputs, InputConst{t.S, path, sort, len(vc.decls)})
	return t
}

// def names a term (returns atoms unchanged).
func (vc *VC) def(hint string, t T) T {
	if isAtom(t) {
		return t
	}
	key := t.Sort + "|" + t.S
	if c, ok := vc.defCache[key]; ok {
		return c
	}
	vc.ctr++
	name := fmt.Sprintf("%s!%d", sanitize(hint), vc.ctr)
	vc.decls = append(vc.decls, fmt.Sprintf("(define-fun %s () %s %s)", name, t.Sort, t.S))
	r := T{name, t.Sort}
	vc.defCache[key] = r
	if vc.bodies == nil {
		vc.bodies = map[string]string{}
	}
	vc.bodies[name] = t.S
	return r
}

func (vc *VC) assume(t T, src string) {
	if t.S == "true" {
		return
	}
	vc.assumes = append(vc.assumes, t)
	vc.assumeSrc = append(vc.assumeSrc, src)
}

func (vc *VC) oblige(o *Obligation) {
	o.nDecls = len(vc.decls)
	o.nAssume = len(vc.assumes)
	vc.Obls = append(vc.Obls, o)
}

// Query renders the SMT-LIB text of an obligation (optionally restricted to one split case).
func (vc *VC) Query(o *Obligation, prelude string, splitAsserts []T, wantModel bool) string {
	return vc.QuerySliced(o, prelude, splitAsserts, wantModel, nil)
}

// QuerySliced is Query restricted to the assumptions whose index is in keep (nil: all).
func (vc *VC) QuerySliced(o *Obligation, prelude string, splitAsserts []T, wantModel bool, keep map[int]bool) string {
	var sb strings.Builder
	if o.Cover && strings.Contains(prelude, "(assert (forall") {
		// reachability (expected answer: sat) cannot be decided by the solvers in the presence of
		// quantified axioms; the axioms only constrain otherwise uninterpreted functions, so they are
		// left out of cover queries
		var keep []string
		for _, ln := range strings.Split(prelude, "\n") {
			if !strings.HasPrefix(ln, "(assert (forall") {
				keep = append(keep, ln)
			}
		}
		prelude = strings.Join(keep, "\n")
	}
	sb.WriteString(prelude)
	sb.WriteString("; ---- unit " + vc.Unit + " obligation " + o.Name + "\n")
	// split cases that fix a declared constant are substituted at its declaration (solvers exploit
	// a definition far better than an asserted equality)
	subst := map[string]string{}
	var restAsserts []T
	for _, s := range splitAsserts {
		if strings.HasPrefix(s.S, "(= ") {
			parts := strings.Fields(strings.TrimSuffix(strings.TrimPrefix(s.S, "(= "), ")"))
			if len(parts) == 2 && !strings.HasPrefix(parts[0], "(") && !strings.HasPrefix(parts[0], "#") && vc.isDeclaredConst(parts[0], o.nDecls) {
				subst["(declare-const "+parts[0]+" "] = parts[1]
				continue
			}
		}
		restAsserts = append(restAsserts, s)
	}
	// bit-slice cases: (=bits NAME HI LO VALUE)
	type fix struct {
		hi, lo int
		val    uint64
	}
	bitFix := map[string][]fix{}
	var rest2 []T
	for _, s := range restAsserts {
		if strings.HasPrefix(s.S, "(=bits ") {
			var name string
			var hi, lo int
			var val uint64
			fmt.Sscanf(strings.TrimSuffix(s.S, ")"), "(=bits %s %d %d %d", &name, &hi, &lo, &val)
			bitFix[name] = append(bitFix[name], fix{hi, lo, val})
			continue
		}
		rest2 = append(rest2, s)
	}
	restAsserts = rest2
	splitAsserts = restAsserts
	for _, d := range vc.decls[:o.nDecls] {
		if len(bitFix) > 0 && strings.HasPrefix(d, "(declare-const ") {
			name := strings.Fields(d)[1]
			if fixes, ok := bitFix[name]; ok {
				sort := strings.TrimSuffix(strings.TrimSpace(d[len("(declare-const "+name):]), ")")
				w := sortWidth(sort)
				sb.WriteString(fmt.Sprintf("(declare-const %s!free %s)\n", name, sort))
				// assemble from the most significant bit down
				var parts []string
				pos := w - 1
				for pos >= 0 {
					var cur *fix
					for i := range fixes {
						if fixes[i].hi == pos {
							cur = &fixes[i]
						}
					}
					if cur != nil {
						parts = append(parts, fmt.Sprintf("#b%0*b", cur.hi-cur.lo+1, cur.val))
						pos = cur.lo - 1
						continue
					}
					// free run down to the next fixed range
					end := 0
					for i := range fixes {
						if fixes[i].hi < pos && fixes[i].hi+1 > end {
							end = fixes[i].hi + 1
						}
					}
					parts = append(parts, fmt.Sprintf("((_ extract %d %d) %s!free)", pos, end, name))
					pos = end - 1
				}
				body := parts[0]
				if len(parts) > 1 {
					body = "(concat " + strings.Join(parts, " ") + ")"
				}
				sb.WriteString(fmt.Sprintf("(define-fun %s () %s %s)\n", name, sort, body))
				continue
			}
		}
		if len(subst) > 0 && strings.HasPrefix(d, "(declare-const ") {
			done := false
			for pre, val := range subst {
				if strings.HasPrefix(d, pre) {
					name := strings.Fields(d)[1]
					sort := strings.TrimSuffix(strings.TrimSpace(d[len("(declare-const "+name):]), ")")
					sb.WriteString(fmt.Sprintf("(define-fun %s () %s %s)\n", name, sort, val))
					done = true
				}
			}
			if done {
				continue
			}
		}
		sb.WriteString(d)
		sb.WriteByte('\n')
	}
	for i, a := range vc.assumes[:o.nAssume] {
		if keep != nil && !keep[i] {
			continue
		}
		sb.WriteString("(assert " + a.S + ")\n")
	}
	for _, s := range splitAsserts {
		sb.WriteString("(assert " + s.S + ")\n")
	}
	if o.Cover {
		sb.WriteString("(assert " + mkAnd(o.Guard, o.Goal).S + ")\n")
	} else {
		sb.WriteString("(assert " + mkAnd(o.Guard, mkNot(o.Goal)).S + ")\n")
	}
	sb.WriteString("(check-sat)\n")
	if wantModel && len(vc.Inputs)+len(vc.Outputs) > 0 {
		sb.WriteString("(get-value (")
		for _, in := range vc.Inputs {
			if in.Idx <= o.nDecls && (strings.HasPrefix(in.Sort, "(_ BitVec") || in.Sort == BoolSort) {
				sb.WriteString(in.Name + " ")
			}
		}
		for _, out := range vc.Outputs {
			if out.Idx <= o.nDecls && (strings.HasPrefix(out.Sort, "(_ BitVec") || out.Sort == BoolSort) {
				sb.WriteString(out.Name + " ")
			}
		}
		sb.WriteString("))\n")
	}
	return dropUnusedSortedGhosts(sb.String())
}

// dropUnusedSortedGhosts removes declarations of ghost constants that the query does not mention: a
// specification sort (e.g. BS) may not even be declared in this package's prelude, and a ghost added for
// one function must not change the text of every other query (solver run times are sensitive to that).
func dropUnusedSortedGhosts(q string) string {
	if !strings.Contains(q, "(declare-const ghost.") {
		return q
	}
	lines := strings.Split(q, "\n")
	out := lines[:0]
	for _, ln := range lines {
		if strings.HasPrefix(ln, "(declare-const ghost.") {
			name := strings.Fields(ln)[1]
			if strings.Count(q, name) == 1 {
				continue
			}
		}
		out = append(out, ln)
	}
	return strings.Join(out, "\n")
}

// output names a term whose model value is reported for replay comparison.
func (vc *VC) output(path string, t T) {
	vc.ctr++
	name := fmt.Sprintf("out!%d", vc.ctr)
	vc.decls = append(vc.decls, fmt.Sprintf("(define-fun %s () %s %s)", name, t.Sort, t.S))
	vc.Outputs = append(vc.Outputs, InputConst{name, path, t.Sort, len(vc.decls)})
}

// ---- relevance slicing -------------------------------------------------------------------------

func (vc *VC) buildSymtab() {
	if vc.symDeps != nil {
		return
	}
	vc.symDeps = map[string][]string{}
	vc.symBase = map[string]bool{}
	for _, d := range vc.decls {
		f := strings.Fields(d)
		if len(f) < 2 {
			continue
		}
		name := f[1]
		switch f[0] {
		case "(declare-const", "(declare-fun":
			vc.symBase[name] = true
			vc.symDeps[name] = nil
		case "(define-fun":
			vc.symDeps[name] = nil
		}
	}
	for _, d := range vc.decls {
		if !strings.HasPrefix(d, "(define-fun ") {
			continue
		}
		name := strings.Fields(d)[1]
		vc.symDeps[name] = vc.tokensIn(d[len("(define-fun ")+len(name):])
	}
	vc.closure = map[string]map[string]bool{}
}

func (vc *VC) tokensIn(s string) []string {
	var out []string
	seen := map[string]bool{}
	start := -1
	flush := func(end int) {
		if start >= 0 {
			tok := s[start:end]
			if _, ok := vc.symDeps[tok]; ok && !seen[tok] {
				seen[tok] = true
				out = append(out, tok)
			}
			start = -1
		}
	}
	for i := 0; i < len(s); i++ {
		c := s[i]
		if c == ' ' || c == '(' || c == ')' || c == '\n' || c == '\t' {
			flush(i)
		} else if start < 0 {
			start = i
		}
	}
	flush(len(s))
	return out
}

// baseOf returns the declared constants a name depends on.
func (vc *VC) baseOf(name string) map[string]bool {
	if c, ok := vc.closure[name]; ok {
		return c
	}
	res := map[string]bool{}
	vc.closure[name] = res // cycle guard (none expected)
	if vc.symBase[name] {
		res[name] = true
		return res
	}
	for _, d := range vc.symDeps[name] {
		for b := range vc.baseOf(d) {
			res[b] = true
		}
	}
	return res
}

func (vc *VC) baseOfTerm(t string) map[string]bool {
	res := map[string]bool{}
	for _, tok := range vc.tokensIn(t) {
		for b := range vc.baseOf(tok) {
			res[b] = true
		}
	}
	return res
}

// Slice selects the assumptions relevant to obligation o: those sharing a declared constant with the
// goal, extended `depth` times through the selected assumptions.
func (vc *VC) Slice(o *Obligation, depth int) map[int]bool {
	vc.symMu.Lock()
	defer vc.symMu.Unlock()
	vc.buildSymtab()
	if vc.assumeBase == nil {
		vc.assumeBase = map[int]map[string]bool{}
	}
	rel := vc.baseOfTerm(o.Guard.S + " " + o.Goal.S)
	keep := map[int]bool{}
	for d := 0; d < depth; d++ {
		added := false
		next := map[string]bool{}
		for k := range rel {
			next[k] = true
		}
		for i := 0; i < o.nAssume; i++ {
			if keep[i] {
				continue
			}
			ab, ok := vc.assumeBase[i]
			if !ok {
				ab = vc.baseOfTerm(vc.assumes[i].S)
				vc.assumeBase[i] = ab
			}
			hit := false
			for k := range ab {
				if rel[k] {
					hit = true
					break
				}
			}
			if hit {
				keep[i] = true
				added = true
				for k := range ab {
					next[k] = true
				}
			}
		}
		rel = next
		if !added {
			break
		}
	}
	return keep
}

// LightSlice keeps the assumptions whose transitive definition text is smaller than limit bytes.
func (vc *VC) LightSlice(o *Obligation, limit int) map[int]bool {
	vc.symMu.Lock()
	defer vc.symMu.Unlock()
	vc.buildSymtab()
	if vc.defLen == nil {
		vc.defLen = map[string]int{}
		for _, d := range vc.decls {
			if strings.HasPrefix(d, "(define-fun ") {
				vc.defLen[strings.Fields(d)[1]] = len(d)
			}
		}
		vc.assumeSize = map[int]int{}
	}
	keep := map[int]bool{}
	for i := 0; i < o.nAssume; i++ {
		sz, ok := vc.assumeSize[i]
		if !ok {
			seen := map[string]bool{}
			var walk func(n string)
			total := len(vc.assumes[i].S)
			walk = func(n string) {
				if seen[n] {
					return
				}
				seen[n] = true
				total += vc.defLen[n]
				for _, d := range vc.symDeps[n] {
					walk(d)
				}
			}
			for _, tok := range vc.tokensIn(vc.assumes[i].S) {
				walk(tok)
			}
			sz = total
			vc.assumeSize[i] = sz
		}
		if sz < limit {
			keep[i] = true
		}
	}
	return keep
}

// isDeclaredConst reports whether name is introduced by a declare-const (rather than a define-fun)
// among the first n declarations.
func (vc *VC) isDeclaredConst(name string, n int) bool {
	pre := "(declare-const " + name + " "
	for _, d := range vc.decls[:n] {
		if strings.HasPrefix(d, pre) {
			return true
		}
	}
	return false
}
