package main

// replayModel runs the real function on the counterexample's inputs (see replay_gen.go).
func replayModel(p *Program, verif string, r *Result, inputs map[string]string) map[string]interface{} {
	return replayGeneric(p, verif, r, inputs)
}
