package main

import (
	"fmt"
	"go/ast"
	"os"
	"regexp"
	"go/constant"
	"go/token"
	"go/types"
	"math/big"
	"sort"

	"golang.org/x/tools/go/ssa"
)

// Exec is the symbolic executor for one verification unit (one function under contract).
type Exec struct {
	vc       *VC
	prog     *Program
	top      *ssa.Function
	fc       *FuncContract
	nopanic  bool
	exact    bool
	objCtr   int
	inits    map[*Object]Value
	globals  map[*ssa.Global]*Object
	ghosts   map[string]*Object
	counters map[string]int
	entry    *State // state at function entry (for old())
	params   map[string]Value
	depth    int
	unit     string
	bounded  []string
	forceInline bool
	topOpts  *evalOpts
	ufs      map[string]ufInfo
	trackObj map[string]*Object
}

type edge struct {
	from, to *ssa.BasicBlock
	st       State
}

// loopInfo describes one natural loop.
type loopInfo struct {
	header  *ssa.BasicBlock
	body    map[*ssa.BasicBlock]bool
	ordinal int
	pos     token.Pos
	parent  *loopInfo
}

// frame is the per-function-activation information.
type frame struct {
	fn      *ssa.Function
	fc      *FuncContract // loop contracts etc. for this function (may be nil)
	loops   map[*ssa.BasicBlock]*loopInfo
	rpo     []*ssa.BasicBlock
	rpoIdx  map[*ssa.BasicBlock]int
	rets    []edge // states at Return instructions (st.env[nil] unused); results stored in retVals
	retVals []Value
	top     bool
	name    string
	preLoop map[*loopInfo]*State
}

func (x *Exec) count(kind string) int {
	x.counters[kind]++
	return x.counters[kind]
}

var modPathRe = regexp.MustCompile(`github\.com/paulsonkoly/chess-3/(?:[A-Za-z0-9_\-]+/)*([A-Za-z0-9_]+)\.`)

// shortFuncName renders a function name with package paths of the repository shortened to the
// package name: (*board.Board).MakeMove, epd.shuffleIndex, chess.Clamp[int64].
func shortFuncName(fn *ssa.Function) string {
	return modPathRe.ReplaceAllString(fn.String(), "$1.")
}

const modulePrefix = "github.com/paulsonkoly/chess-3/"

// ---------------------------------------------------------------------------------------------
// loop analysis

func analyzeLoops(fn *ssa.Function) (map[*ssa.BasicBlock]*loopInfo, []*ssa.BasicBlock) {
	loops := map[*ssa.BasicBlock]*loopInfo{}
	for _, b := range fn.Blocks {
		for _, s := range b.Succs {
			if s.Dominates(b) { // back edge b -> s
				li := loops[s]
				if li == nil {
					li = &loopInfo{header: s, body: map[*ssa.BasicBlock]bool{s: true}}
					loops[s] = li
				}
				// natural loop: nodes that reach b without passing s
				var stack []*ssa.BasicBlock
				if !li.body[b] {
					li.body[b] = true
					stack = append(stack, b)
				}
				for len(stack) > 0 {
					n := stack[len(stack)-1]
					stack = stack[:len(stack)-1]
					for _, p := range n.Preds {
						if !li.body[p] {
							li.body[p] = true
							stack = append(stack, p)
						}
					}
				}
			}
		}
	}
	var list []*loopInfo
	for _, li := range loops {
		list = append(list, li)
	}
	// parents: smallest enclosing loop
	for _, li := range list {
		for _, lj := range list {
			if li != lj && lj.body[li.header] && len(lj.body) > len(li.body) {
				if li.parent == nil || len(lj.body) < len(li.parent.body) {
					li.parent = lj
				}
			}
		}
	}
	// loop ordinals: pre-order of the loop nest, siblings ordered by the first source position of any
	// of their instructions inside the function body (this is the textual order of the statements)
	var bodyLo, bodyHi token.Pos
	var syn ast.Node
	if fn.Syntax() != nil {
		syn = fn.Syntax()
	} else if fn.Origin() != nil {
		syn = fn.Origin().Syntax()
	}
	switch d := syn.(type) {
	case *ast.FuncDecl:
		if d.Body != nil {
			bodyLo, bodyHi = d.Body.Pos(), d.Body.End()
		}
	case *ast.FuncLit:
		bodyLo, bodyHi = d.Body.Pos(), d.Body.End()
	}
	for _, li := range list {
		li.pos = token.Pos(1 << 40)
		for b := range li.body {
			for _, in := range b.Instrs {
				if _, isDbg := in.(*ssa.DebugRef); isDbg {
					continue
				}
				if _, isPhi := in.(*ssa.Phi); isPhi {
					continue // a phi carries the position of its variable's declaration
				}
				p := in.Pos()
				if !p.IsValid() || (bodyLo.IsValid() && (p < bodyLo || p > bodyHi)) {
					continue
				}
				if p < li.pos {
					li.pos = p
				}
			}
		}
	}
	children := map[*loopInfo][]*loopInfo{}
	for _, li := range list {
		children[li.parent] = append(children[li.parent], li)
	}
	ord := 0
	var walk func(p *loopInfo)
	walk = func(p *loopInfo) {
		cs := children[p]
		sort.Slice(cs, func(i, j int) bool {
			if cs[i].pos != cs[j].pos {
				return cs[i].pos < cs[j].pos
			}
			return cs[i].header.Index < cs[j].header.Index
		})
		for _, c := range cs {
			ord++
			c.ordinal = ord
			walk(c)
		}
	}
	walk(nil)
	if os.Getenv("GOVC_TRACE") != "" {
		for _, li := range list {
			fmt.Fprintf(os.Stderr, "loop %s ordinal %d header %d pos %d parent %v\n", fn.Name(), li.ordinal, li.header.Index, li.pos, li.parent != nil)
		}
	}
	// reverse post-order ignoring back edges
	visited := map[*ssa.BasicBlock]bool{}
	var post []*ssa.BasicBlock
	var dfs func(b *ssa.BasicBlock)
	dfs = func(b *ssa.BasicBlock) {
		visited[b] = true
		for _, s := range b.Succs {
			if s.Dominates(b) {
				continue
			}
			if !visited[s] {
				dfs(s)
			}
		}
		post = append(post, b)
	}
	if len(fn.Blocks) > 0 {
		dfs(fn.Blocks[0])
	}
	rpo := make([]*ssa.BasicBlock, 0, len(post))
	for i := len(post) - 1; i >= 0; i-- {
		rpo = append(rpo, post[i])
	}
	return loops, rpo
}

// ---------------------------------------------------------------------------------------------
// state merging

func (x *Exec) mergeStates(ins []State, what string) State {
	if len(ins) == 1 {
		return ins[0]
	}
	conds := make([]T, len(ins))
	for i, s := range ins {
		conds[i] = s.reach
	}
	out := State{reach: x.vc.def("reach", mkOr(conds...))}
	out.mem = map[*Object]Value{}
	out.env = map[ssa.Value]Value{}
	out.names = map[string]Value{}
	// memory
	objs := map[*Object]bool{}
	for _, s := range ins {
		for o := range s.mem {
			objs[o] = true
		}
	}
	for o := range objs {
		var acc Value
		for i := len(ins) - 1; i >= 0; i-- {
			s := ins[i]
			if _, has := s.mem[o]; !has && o.Kind == "track" {
				acc = nil
				break // memo of an opaque application: only valid if present on every path
			}
			if _, has := s.mem[o]; !has && !o.Lazy {
				continue // object created on another path: dead here
			}
			v := x.contents(&s, o)
			if acc == nil {
				acc = v
				continue
			}
			m, ok := mergeValues(conds[i], v, acc)
			if !ok {
				bail("cannot merge contents of %s at %s (shapes differ)", o, what)
			}
			acc = m
		}
		if acc == nil {
			continue
		}
		out.mem[o] = x.nameValue("mg", acc)
	}
	// env: only values present in all incoming states survive
	for k, v0 := range ins[len(ins)-1].env {
		acc := v0
		ok := true
		for i := len(ins) - 2; i >= 0; i-- {
			v, has := ins[i].env[k]
			if !has {
				ok = false
				break
			}
			m, mok := mergeValues(conds[i], v, acc)
			if !mok {
				// values that cannot be merged (e.g. pointers into different fresh objects) become an
				// uninterpreted placeholder: passing it on is fine, looking inside it is a structure error
				acc = Opq{Tag: "unmergeable"}
				continue
			}
			acc = m
		}
		if ok {
			out.env[k] = x.nameValue("e", acc)
		}
	}
	for k, v0 := range ins[len(ins)-1].names {
		acc := v0
		ok := true
		for i := len(ins) - 2; i >= 0; i-- {
			v, has := ins[i].names[k]
			if !has {
				ok = false
				break
			}
			m, mok := mergeValues(conds[i], v, acc)
			if !mok {
				ok = false
				break
			}
			acc = m
		}
		if ok {
			out.names[k] = x.nameValue("n", acc)
		}
	}
	// defers: align by instruction; guard merges to false where absent
	seen := map[*ssa.Defer]bool{}
	for _, s := range ins {
		for _, d := range s.defers {
			if seen[d.call] {
				continue
			}
			seen[d.call] = true
			var g T = tFalse
			var rec deferRec
			for i := len(ins) - 1; i >= 0; i-- {
				gi := tFalse
				for _, e := range ins[i].defers {
					if e.call == d.call {
						gi = e.guard
						rec = e
					}
				}
				g = mkIte(conds[i], gi, g)
			}
			rec.guard = x.vc.def("dg", g)
			out.defers = append(out.defers, rec)
		}
	}
	return out
}

// ---------------------------------------------------------------------------------------------
// running a function body

// runFunc executes fn from state st with the given arguments and returns the merged state at its
// returns together with the result value (nil, a Value, or a Tup).  ok=false if no return is reachable.
func (x *Exec) runFunc(fn *ssa.Function, args []Value, bind []Value, st State, top bool) (State, Value, bool) {
	if len(fn.Blocks) == 0 {
		bail("function %s has no body", fn)
	}
	x.depth++
	defer func() { x.depth-- }()
	if x.depth > 24 {
		bail("inlining depth exceeded at %s", fn)
	}
	fr := &frame{fn: fn, top: top, name: shortFuncName(fn), preLoop: map[*loopInfo]*State{}}
	fr.fc = x.prog.contracts.Funcs[shortFuncName(fn)]
	if top && x.fc != nil && x.fc.View != "" {
		// a view verified against the body: its own loop contracts, lemma uses and obligation names
		fr.fc = x.fc
		fr.name = x.fc.Key
	}
	fr.loops, fr.rpo = analyzeLoops(fn)
	fr.rpoIdx = map[*ssa.BasicBlock]int{}
	for i, b := range fr.rpo {
		fr.rpoIdx[b] = i
	}
	in := st.clone()
	if top {
		// ghost iteration counters exist (as 0) before their loops are reached
		for _, li := range fr.loops {
			in.names[fmt.Sprintf("#count%d", li.ordinal)] = Sc{T: lit(64, 0), Signed: true}
		}
	}
	if !top {
		// callee gets its own value environment and names, and an empty defer stack
		in.env = map[ssa.Value]Value{}
		in.names = map[string]Value{}
		in.defers = nil
	}
	for i, p := range fn.Params {
		in.env[p] = args[i]
		in.names[p.Name()] = args[i]
	}
	for i, fv := range fn.FreeVars {
		in.env[fv] = bind[i]
		if _, isPtr := bind[i].(Ptr); isPtr {
			// captured by reference: the name denotes the variable, the free variable is its address
			in.names["&"+fv.Name()] = bind[i]
		} else {
			in.names[fv.Name()] = bind[i]
		}
	}
	all := map[*ssa.BasicBlock]bool{}
	for _, b := range fn.Blocks {
		all[b] = true
	}
	exits := x.runRegion(fr, all, fn.Blocks[0], []State{in}, nil)
	if len(exits) != 0 {
		bail("unexpected region exits in %s", fn)
	}
	if len(fr.rets) == 0 {
		return State{}, nil, false
	}
	// merge return states, carrying the result value through env under a pseudo key
	var states []State
	for i, e := range fr.rets {
		s := e.st
		if fr.retVals[i] != nil {
			s.env[retKey] = fr.retVals[i]
		}
		states = append(states, s)
	}
	out := x.mergeStates(states, "return of "+fn.Name())
	res := out.env[retKey]
	if !top {
		// restore caller's env/names/defers
		out.env = st.env
		out.names = st.names
		out.defers = st.defers
	}
	return out, res, true
}

var retKey ssa.Value = &ssa.Const{}

// runRegion executes the blocks of region starting at entry with the given incoming states.
// It returns the edges leaving the region (including back edges to entry when entry is a loop
// header being executed by runLoop).
func (x *Exec) runRegion(fr *frame, region map[*ssa.BasicBlock]bool, entry *ssa.BasicBlock, ins []State, cur *loopInfo) []edge {
	pending := map[*ssa.BasicBlock][]edge{}
	for _, s := range ins {
		pending[entry] = append(pending[entry], edge{nil, entry, s})
	}
	done := map[*ssa.BasicBlock]bool{}
	var exits []edge
	for _, b := range fr.rpo {
		if !region[b] || done[b] {
			continue
		}
		inc := pending[b]
		if len(inc) == 0 {
			done[b] = true
			continue // unreachable
		}
		if li := fr.loops[b]; li != nil && li != cur {
			// nested loop: run it as a unit
			outs := x.runLoop(fr, li, inc)
			for blk := range li.body {
				done[blk] = true
			}
			for _, e := range outs {
				if region[e.to] && !(cur != nil && e.to == cur.header) {
					pending[e.to] = append(pending[e.to], e)
				} else {
					exits = append(exits, e)
				}
			}
			continue
		}
		done[b] = true
		st := x.enterBlock(fr, b, inc)
		outs := x.execBlock(fr, b, st)
		for _, e := range outs {
			isBack := cur != nil && e.to == cur.header
			if region[e.to] && !isBack {
				pending[e.to] = append(pending[e.to], e)
			} else {
				exits = append(exits, e)
			}
		}
	}
	return exits
}

// enterBlock merges incoming edges and evaluates the phi nodes of b.
func (x *Exec) enterBlock(fr *frame, b *ssa.BasicBlock, inc []edge) State {
	// evaluate phis per incoming edge first
	var states []State
	for _, e := range inc {
		s := e.st.clone()
		if e.from != nil {
			predIdx := -1
			for i, p := range b.Preds {
				if p == e.from {
					predIdx = i
				}
			}
			vals := map[*ssa.Phi]Value{}
			for _, in := range b.Instrs {
				phi, ok := in.(*ssa.Phi)
				if !ok {
					break
				}
				vals[phi] = x.operand(fr, &s, phi.Edges[predIdx])
			}
			for phi, v := range vals {
				s.env[phi] = v
				if phi.Comment != "" {
					s.names[phi.Comment] = v
				}
			}
		}
		states = append(states, s)
	}
	return x.mergeStates(states, fmt.Sprintf("%s block %d", fr.fn.Name(), b.Index))
}

// ---------------------------------------------------------------------------------------------
// loops

func (x *Exec) loopContract(fr *frame, li *loopInfo) *LoopContract {
	if fr.fc != nil {
		if lc := fr.fc.Loops[li.ordinal]; lc != nil {
			return lc
		}
	}
	return nil
}

func (x *Exec) runLoop(fr *frame, li *loopInfo, inc []edge) []edge {
	lc := x.loopContract(fr, li)
	if lc == nil {
		bail("%s: loop %d has neither invariant nor unroll bound", fr.name, li.ordinal)
	}
	if lc.Unroll > 0 {
		return x.unrollLoop(fr, li, lc, inc)
	}
	h := li.header
	loopName := fmt.Sprintf("%s#loop%d", fr.name, li.ordinal)
	// 1. entry state with phis evaluated
	sin := x.enterBlock(fr, h, inc)
	cntName := fmt.Sprintf("#count%d", li.ordinal)
	sin.names[cntName] = Sc{T: lit(64, 0), Signed: true}
	pre := sin.clone()
	fr.preLoop[li] = &pre
	if fr.fc != nil {
		// lemma instances requested `at loopN` are also available when the invariant is established
		for _, ul := range fr.fc.Uses {
			if ul.At == fmt.Sprintf("loop%d", li.ordinal) {
				x.useLemma(fr, &sin, ul, x.loopOpts(fr, &pre))
			}
		}
	}
	for i, inv := range lc.Invariants {
		g := x.evalGoalClause(fr, &sin, inv, x.loopOpts(fr, &pre))
		x.vc.oblige(&Obligation{Name: fmt.Sprintf("%s.inv%d.entry", loopName, i+1), Kind: "inv-entry", Func: fr.name,
			Guard: sin.reach, Goal: g, Src: inv.Src, Pos: fmt.Sprintf("%s:%d", inv.File, inv.Line)})
	}
	// 2. havoc phis and modified memory
	hs := sin.clone()
	for _, in := range h.Instrs {
		phi, ok := in.(*ssa.Phi)
		if !ok {
			break
		}
		nv := x.havocLike(hs.env[phi], "L"+phi.Comment)
		hs.env[phi] = nv
		if phi.Comment != "" {
			hs.names[phi.Comment] = nv
		}
	}
	x.havocLoopMemory(fr, li, lc, &hs)
	{
		// ghost iteration counter: arbitrary non-negative at the head, one more along every back edge
		k := x.vc.fresh("Lcount", bvSort(64))
		x.vc.assume(mkAnd(bvcmp("bvsle", lit(64, 0), k), bvcmp("bvslt", k, lit(64, 1<<62))), "loop iteration counter is non-negative")
		hs.names[cntName] = Sc{T: k, Signed: true}
	}
	for _, inv := range lc.Invariants {
		g := x.evalBoolClause(fr, &hs, inv, x.loopOpts(fr, &pre))
		x.vc.assume(mkImplies(hs.reach, g), "loop invariant "+loopName)
		if fr.top {
			x.assumeInstances(fr, &hs, inv, x.loopOpts(fr, &pre), hs.reach, "loop invariant "+loopName)
		}
	}
	if fr.fc != nil {
		for _, ul := range fr.fc.Uses {
			if ul.At == fmt.Sprintf("loop%d", li.ordinal) {
				x.useLemma(fr, &hs, ul, x.loopOpts(fr, &pre))
			}
		}
	}
	// 3. run the body from the havocked header
	st := hs
	outs := x.execBlockSeq(fr, li, st)
	var exits []edge
	for _, e := range outs {
		if e.to == h {
			// back edge: evaluate phis along it and check the invariant
			s := e.st.clone()
			predIdx := -1
			for i, p := range h.Preds {
				if p == e.from {
					predIdx = i
				}
			}
			vals := map[*ssa.Phi]Value{}
			for _, in := range h.Instrs {
				phi, ok := in.(*ssa.Phi)
				if !ok {
					break
				}
				vals[phi] = x.operand(fr, &s, phi.Edges[predIdx])
			}
			for phi, v := range vals {
				s.env[phi] = v
				if phi.Comment != "" {
					s.names[phi.Comment] = v
				}
			}
			if cv, ok := hs.names[cntName].(Sc); ok {
				s.names[cntName] = Sc{T: bvbin("bvadd", cv.T, lit(64, 1)), Signed: true}
			}
			if len(lc.Modifies) > 0 || lc.ModNothing {
				x.loopFrameObligations(fr, &hs, &s, lc, x.loopOpts(fr, &pre), loopName, e.from.Index)
			}
			for i, inv := range lc.Invariants {
				g := x.evalGoalClause(fr, &s, inv, x.loopOpts(fr, &pre))
				x.vc.oblige(&Obligation{Name: fmt.Sprintf("%s.inv%d.preserved@%d", loopName, i+1, e.from.Index), Kind: "inv-preserved", Func: fr.name,
					Guard: s.reach, Goal: g, Src: inv.Src, Pos: fmt.Sprintf("%s:%d", inv.File, inv.Line)})
			}
		} else {
			exits = append(exits, e)
		}
	}
	return exits
}

// execBlockSeq runs the loop body region starting at the header with an already prepared state
// (phis evaluated).
func (x *Exec) execBlockSeq(fr *frame, li *loopInfo, st State) []edge {
	h := li.header
	outs := x.execBlock(fr, h, st)
	var exits []edge
	pendingIns := map[*ssa.BasicBlock][]edge{}
	for _, e := range outs {
		if li.body[e.to] && e.to != h {
			pendingIns[e.to] = append(pendingIns[e.to], e)
		} else {
			exits = append(exits, e)
		}
	}
	// run the rest of the body
	region := map[*ssa.BasicBlock]bool{}
	for b := range li.body {
		if b != h {
			region[b] = true
		}
	}
	rest := x.runRegionMulti(fr, region, pendingIns, li)
	return append(exits, rest...)
}

// runRegionMulti is runRegion with several entry points.
func (x *Exec) runRegionMulti(fr *frame, region map[*ssa.BasicBlock]bool, pending map[*ssa.BasicBlock][]edge, cur *loopInfo) []edge {
	done := map[*ssa.BasicBlock]bool{}
	var exits []edge
	for _, b := range fr.rpo {
		if !region[b] || done[b] {
			continue
		}
		inc := pending[b]
		if len(inc) == 0 {
			done[b] = true
			continue
		}
		route := func(outs []edge) {
			for _, e := range outs {
				if region[e.to] {
					pending[e.to] = append(pending[e.to], e)
				} else {
					exits = append(exits, e)
				}
			}
		}
		if li := fr.loops[b]; li != nil && li != cur {
			outs := x.runLoop(fr, li, inc)
			for blk := range li.body {
				done[blk] = true
			}
			route(outs)
			continue
		}
		done[b] = true
		st := x.enterBlock(fr, b, inc)
		route(x.execBlock(fr, b, st))
	}
	return exits
}

func (x *Exec) unrollLoop(fr *frame, li *loopInfo, lc *LoopContract, inc []edge) []edge {
	h := li.header
	loopName := fmt.Sprintf("%s#loop%d", fr.name, li.ordinal)
	var exits []edge
	cur := inc
	// the loop header is entered at most Unroll+1 times; the last entry must leave the loop without
	// reaching a back edge (unwinding assertion)
	for iter := 0; iter <= lc.Unroll && len(cur) > 0; iter++ {
		st := x.enterBlock(fr, h, cur)
		if iter == 0 {
			pre := st.clone()
			fr.preLoop[li] = &pre
		}
		if os.Getenv("GOVC_TRACE") != "" {
			fmt.Fprintf(os.Stderr, "unroll %s pass %d reach=%s names=%v\n", loopName, iter, st.reach.S, st.names["color"])
		}
		outs := x.execBlockSeq(fr, li, st)
		cur = nil
		for _, e := range outs {
			if e.to == h {
				cur = append(cur, e)
			} else {
				exits = append(exits, e)
			}
		}
	}
	if len(cur) > 0 {
		var still []T
		for _, e := range cur {
			still = append(still, e.st.reach)
		}
		cond := mkOr(still...)
		if lc.UnrollAssume {
			x.vc.assume(mkNot(cond), "bounded unrolling of "+loopName)
			x.bounded = append(x.bounded, fmt.Sprintf("%s unrolled %d times without unwinding assertion", loopName, lc.Unroll))
		} else {
			x.vc.oblige(&Obligation{Name: loopName + ".unwind", Kind: "unwind", Func: fr.name,
				Guard: cond, Goal: tFalse, Src: fmt.Sprintf("unroll %d", lc.Unroll)})
			x.vc.assume(mkNot(cond), "unwinding assertion of "+loopName)
		}
	}
	return exits
}

// execHeaderOnly executes just the header block (used for the final exit test after unrolling).
func (x *Exec) execHeaderOnly(fr *frame, li *loopInfo, st State) []edge {
	return x.execBlock(fr, li.header, st)
}

func (x *Exec) havocLike(v Value, hint string) Value {
	switch a := v.(type) {
	case Sc:
		return Sc{T: x.vc.fresh(hint, a.Sort), Signed: a.Signed}
	case Agg:
		out := make([]Value, len(a.Elems))
		for i, e := range a.Elems {
			out[i] = x.havocLike(e, hint)
		}
		return Agg{out, a.Typ}
	case Tup:
		out := make([]Value, len(a.Elems))
		for i, e := range a.Elems {
			out[i] = x.havocLike(e, hint)
		}
		return Tup{out}
	case Big:
		return mapLeaves(v, func(s Sc) Sc { return Sc{T: x.vc.fresh(hint, s.Sort), Signed: s.Signed} })
	case Slc:
		if a.Nil {
			return a
		}
		n := Slc{Obj: a.Obj, Path: a.Path, Off: x.vc.fresh(hint+".off", bvSort(64)), Len: x.vc.fresh(hint+".len", bvSort(64)), Cap: x.vc.fresh(hint+".cap", bvSort(64))}
		x.vc.assume(mkAnd(bvcmp("bvsle", lit(64, 0), n.Off), bvcmp("bvsle", lit(64, 0), n.Len), bvcmp("bvsle", n.Len, n.Cap), bvcmp("bvsle", n.Cap, lit(64, 1<<40)), bvcmp("bvsle", n.Off, lit(64, 1<<40))), "slice header")
		return n
	case Ptr:
		// pointers with symbolic indices: havoc the indices
		if len(a.Path) == 0 {
			return a
		}
		path := make([]Sel, len(a.Path))
		for i, s := range a.Path {
			path[i] = s
			if s.Field < 0 {
				if _, isC := constVal(s.Idx); !isC {
					path[i].Idx = x.vc.fresh(hint+".ix", bvSort(64))
				}
			}
		}
		return Ptr{Obj: a.Obj, Path: path}
	}
	return v
}

// havocLoopMemory replaces everything the loop may write by fresh values.
func (x *Exec) havocLoopMemory(fr *frame, li *loopInfo, lc *LoopContract, st *State) {
	if lc.ModNothing {
		return
	}
	if len(lc.Modifies) > 0 {
		for _, m := range lc.Modifies {
			x.havocPathExpr(fr, st, m, nil)
		}
		return
	}
	// conservative: every object that is the root of a Store target or passed to / modified by a call
	// inside the loop is havocked entirely.
	roots := map[*Object]bool{}
	unknown := false
	for b := range li.body {
		for _, in := range b.Instrs {
			switch i := in.(type) {
			case *ssa.Store:
				if p, ok := st.env[i.Addr].(Ptr); ok && p.Obj != nil {
					roots[p.Obj] = true
				} else if r := x.staticRoot(fr, st, i.Addr); r != nil {
					roots[r] = true
				} else {
					unknown = true
				}
			case ssa.CallInstruction:
				x.callWrites(fr, st, i, roots, &unknown)
			}
		}
	}
	if unknown {
		bail("%s loop %d: cannot determine what the loop writes; add `loop %d: modifies ...`", fr.name, li.ordinal, li.ordinal)
	}
	for o := range roots {
		st.mem[o] = x.havocLike(x.contents(st, o), "L"+o.Name)
	}
}

// staticRoot finds the object an address expression is rooted in, looking through FieldAddr/IndexAddr chains.
func (x *Exec) staticRoot(fr *frame, st *State, v ssa.Value) *Object {
	for {
		if p, ok := st.env[v].(Ptr); ok {
			return p.Obj
		}
		if s, ok := st.env[v].(Slc); ok {
			return s.Obj
		}
		switch a := v.(type) {
		case *ssa.FieldAddr:
			v = a.X
		case *ssa.IndexAddr:
			v = a.X
		case *ssa.Global:
			return x.globalObject(a)
		case *ssa.Alloc:
			return nil // allocated inside the loop: fresh each iteration
		case *ssa.UnOp:
			if a.Op == token.MUL {
				// pointer loaded from memory: find the pointer value if its address is static
				r := x.staticRoot(fr, st, a.X)
				if r == nil {
					return nil
				}
				return nil
			}
			return nil
		case *ssa.Slice:
			v = a.X
		case *ssa.Phi:
			return nil
		default:
			return nil
		}
	}
}

// ---------------------------------------------------------------------------------------------
// operands and constants

func (x *Exec) operand(fr *frame, st *State, v ssa.Value) Value {
	switch c := v.(type) {
	case *ssa.Const:
		return x.constValue(c)
	case *ssa.Global:
		return Ptr{Obj: x.globalObject(c)}
	case *ssa.Function:
		return Clo{Fn: c}
	case *ssa.Builtin:
		return Opq{Tag: "builtin:" + c.Name()}
	}
	if val, ok := st.env[v]; ok {
		return val
	}
	bail("%s: no value for %s (%T) = %s", fr.name, v.Name(), v, v)
	return nil
}

func (x *Exec) constValue(c *ssa.Const) Value {
	t := c.Type()
	if c.Value == nil {
		return x.zeroValue(t)
	}
	if sort, signed, ok := scalarSort(t); ok {
		if sort == BoolSort {
			if constant.BoolVal(c.Value) {
				return Sc{T: tTrue}
			}
			return Sc{T: tFalse}
		}
		bi, ok := constant.Val(constant.ToInt(c.Value)).(*big.Int)
		if !ok {
			i64, _ := constant.Int64Val(constant.ToInt(c.Value))
			bi = big.NewInt(i64)
		}
		return Sc{T: litBig(sortWidth(sort), bi), Signed: signed}
	}
	if c.Value.Kind() == constant.String {
		s := constant.StringVal(c.Value)
		return Opq{Typ: t, Tag: "string", Str: &s}
	}
	return Opq{Typ: t, Tag: "const"}
}

func (x *Exec) globalObject(g *ssa.Global) *Object {
	if o, ok := x.globals[g]; ok {
		return o
	}
	name := g.Name()
	if g.Pkg != nil {
		name = g.Pkg.Pkg.Name() + "." + name
	}
	o := x.newObject(name, "global", g.Type().(*types.Pointer).Elem())
	o.Global = g
	o.Lazy = true
	x.globals[g] = o
	return o
}

func (x *Exec) sc(fr *frame, st *State, v ssa.Value) Sc {
	val := x.operand(fr, st, v)
	s, ok := val.(Sc)
	if !ok {
		bail("%s: expected scalar for %s, got %T", fr.name, v.Name(), val)
	}
	return s
}

// obligeSafety emits a safety obligation if the unit is checked for panics.
func (x *Exec) obligeSafety(fr *frame, st *State, kind string, goal T, in ssa.Instruction) {
	if !x.nopanic || goal.S == "true" {
		return
	}
	pos := ""
	if in != nil && in.Pos().IsValid() {
		p := x.prog.fset.Position(in.Pos())
		pos = fmt.Sprintf("%s:%d", p.Filename, p.Line)
	}
	n := x.count(fr.name + "#" + kind)
	x.vc.oblige(&Obligation{Name: fmt.Sprintf("%s#%s@%d", fr.name, kind, n), Kind: kind, Func: fr.name,
		Guard: st.reach, Goal: goal, Pos: pos, Src: fmt.Sprintf("%v", in)})
	// after the check the program continues only if it held
	x.vc.assume(mkImplies(st.reach, goal), "passed "+kind+" check")
}

// loopOpts builds the evaluation options for loop invariants: pre() is the loop entry state, old()
// the function entry state and the function-level ghosts stay visible (top-level function only).
func (x *Exec) loopOpts(fr *frame, pre *State) *evalOpts {
	o := &evalOpts{pre: pre, ghost: map[string]Value{}}
	if fr.top && x.topOpts != nil {
		o.ghost = x.topOpts.ghost
		o.old = x.topOpts.old
	}
	return o
}
