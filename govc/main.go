package main

import (
	"encoding/json"
	"flag"
	"fmt"
	"os"
	"path/filepath"
	"sort"
	"strconv"
	"strings"
	"sync"
	"time"
)

type KnownFinding struct {
	Property   string `json:"property"`
	Obligation string `json:"obligation"`
	Status     string `json:"status"` // open | fixed
	Commit     string `json:"commit,omitempty"`
	What       string `json:"what"`
	InputClass string `json:"input_class,omitempty"`
}

var knownFindings []KnownFinding

type job struct {
	unit  *Unit
	obl   *Obligation
	cs    string
	split []T
}

func main() {
	if len(os.Args) < 2 {
		fmt.Fprintln(os.Stderr, "usage: govc check|list|dump ...")
		os.Exit(2)
	}
	switch os.Args[1] {
	case "check":
		os.Exit(cmdCheck(os.Args[2:]))
	case "list":
		os.Exit(cmdList(os.Args[2:]))
	default:
		fmt.Fprintln(os.Stderr, "unknown command", os.Args[1])
		os.Exit(2)
	}
}

func cmdList(args []string) int {
	fs := flag.NewFlagSet("list", flag.ExitOnError)
	repo := fs.String("repo", "/repo", "repository")
	verif := fs.String("verif", "/verif", "verif dir")
	fs.Parse(args)
	p, err := loadProgram(*repo, filepath.Join(*verif, "spec"), filepath.Join(*verif, "contracts"), []string{"./..."}, *repo)
	if err != nil {
		fmt.Fprintln(os.Stderr, "load:", err)
		return 2
	}
	for _, k := range sortedKeys(p.contracts.Funcs) {
		fc := p.contracts.Funcs[k]
		fmt.Printf("func %s props=%v spec=%v\n", k, fc.Props, fc.HasSpec())
	}
	for _, k := range sortedKeys(p.contracts.Lemmas) {
		fmt.Printf("lemma %s props=%v\n", k, p.contracts.Lemmas[k].Props)
	}
	return 0
}

func hasProp(ps []string, id string) bool {
	for _, p := range ps {
		if p == id {
			return true
		}
	}
	return false
}

func cmdCheck(args []string) int {
	fs := flag.NewFlagSet("check", flag.ExitOnError)
	repo := fs.String("repo", "/repo", "repository working tree")
	verif := fs.String("verif", "/verif", "verif dir")
	prop := fs.String("prop", "", "property id")
	tier := fs.String("tier", "quick", "quick|thorough")
	jobs := fs.Int("jobs", 16, "parallel solver jobs")
	only := fs.String("only", "", "only units whose name contains this")
	keep := fs.Bool("keep", false, "keep all query files")
	timeoutFlag := fs.Int("timeout", 0, "per-obligation timeout override (s)")
	noEvidence := fs.Bool("no-evidence", false, "do not write the evidence file")
	failFast := fs.Bool("fail-fast", false, "stop at the first undischarged obligation (development aid; prints one VIOLATION line)")
	verbose := fs.Bool("v", false, "verbose")
	loadDir := fs.String("load-dir", "", "directory of the module to load packages from (default: the repository)")
	patterns := fs.String("patterns", "./...", "comma-separated package patterns")
	noSlice := fs.Bool("no-slice", false, "disable relevance slicing of assumptions")
	match := fs.String("match", "", "only obligations whose name/case contains this (debugging)")
	fs.Parse(args)
	if *prop == "" {
		fmt.Fprintln(os.Stderr, "--prop required")
		return 2
	}
	if t := os.Getenv("VERIF_TIER"); t == "quick" || t == "thorough" {
		if !flagSet(fs, "tier") {
			*tier = t
		}
	}
	seed := 0
	if s := os.Getenv("VERIF_SEED"); s != "" {
		seed, _ = strconv.Atoi(s)
	}
	currentProp = *prop
	start := time.Now()
	ld := *repo
	if *loadDir != "" {
		ld = *loadDir
	}
	p, err := loadProgram(*repo, filepath.Join(*verif, "spec"), filepath.Join(*verif, "contracts"), strings.Split(*patterns, ","), ld)
	if err != nil {
		// the tree does not build: that is not a property verdict
		fmt.Fprintln(os.Stderr, "govc: cannot load program:", err)
		return 2
	}
	loadSecs := time.Since(start).Seconds()
	workDir := filepath.Join(*verif, ".work", *prop)
	os.RemoveAll(workDir)
	os.MkdirAll(workDir, 0o755)
	replayDir := filepath.Join(*verif, "replays", *prop)
	os.RemoveAll(replayDir)
	os.MkdirAll(replayDir, 0o755)

	// known findings
	var known []KnownFinding
	if data, err := os.ReadFile(filepath.Join(*verif, "known_findings.json")); err == nil {
		if err := json.Unmarshal(data, &known); err != nil {
			fmt.Fprintln(os.Stderr, "govc: known_findings.json:", err)
			return 2
		}
	}

	knownFindings = known
	// units
	var units []*Unit
	var deferredUnits []string
	for _, k := range sortedKeys(p.contracts.Funcs) {
		fc := p.contracts.Funcs[k]
		if fc.View != "" && fc.Trusted != "" {
			continue // an assumed view (listed in the trusted base)
		}
		if fc.View != "" && fc.Inline {
			continue // executed in place at its call sites: nothing assumed, nothing to verify separately
		}
		if fc.View != "" && len(fc.Props) == 0 {
			// a view is either declared `trusted` (assumed, listed) or carries `props` and is verified
			// against the body like a main contract; anything else would be a silent assumption
			u := &Unit{Name: fc.Key, Kind: "func", Props: []string{*prop}, VC: newVC(fc.Key), Err: "view " + fc.Key + " is neither `trusted` nor verified (no props)"}
			units = append(units, u)
			continue
		}
		if !hasProp(fc.Props, *prop) || !onlyMatch(k, *only) {
			continue
		}
		if fc.ThoroughOnly && *tier != "thorough" {
			deferredUnits = append(deferredUnits, fc.Key)
			continue
		}
		units = append(units, p.verifyFunc(fc))
	}
	for _, k := range sortedKeys(p.contracts.Scenarios) {
		sc := p.contracts.Scenarios[k]
		if !hasProp(sc.FC.Props, *prop) || !onlyMatch(k, *only) {
			continue
		}
		if sc.FC.ThoroughOnly && *tier != "thorough" {
			deferredUnits = append(deferredUnits, sc.FC.Key)
			continue
		}
		units = append(units, p.verifyScenario(sc))
	}
	for _, k := range sortedKeys(p.contracts.Lemmas) {
		lm := p.contracts.Lemmas[k]
		if !hasProp(lm.Props, *prop) || !onlyMatch(k, *only) {
			continue
		}
		if lm.Axiom {
			continue
		}
		if lm.Fact {
			// justified by the function that establishes it: that function must exist, carry the same
			// property and name the fact
			if msg := p.factJustified(k, *prop); msg != "" {
				u := &Unit{Name: "fact " + k, Kind: "lemma", Props: lm.Props, VC: newVC(k), Err: msg}
				units = append(units, u)
			}
			continue
		}
		units = append(units, p.verifyLemma(lm))
	}
	if u := p.checkWriters(*prop); u != nil {
		units = append(units, u)
	}
	vcSecs := time.Since(start).Seconds() - loadSecs
	if len(units) == 0 {
		fmt.Fprintf(os.Stderr, "govc: no verification units carry property %s (contract files missing?)\n", *prop)
		return 2
	}

	defTimeout := 120
	if *tier == "thorough" {
		defTimeout = 600
	}
	if *timeoutFlag > 0 {
		defTimeout = *timeoutFlag
	}

	// phase 1: every obligation unsplit (short timeout when the unit declares splits);
	// phase 2: the undecided ones are expanded into their split cases.
	runJobs := func(list []job, phase1 bool) []*Result {
		res := make([]*Result, len(list))
		var wg sync.WaitGroup
		sem := make(chan struct{}, *jobs)
		for i := range list {
			wg.Add(1)
			sem <- struct{}{}
			go func(i int) {
				defer wg.Done()
				defer func() { <-sem }()
				j := list[i]
				to := defTimeout
				if j.unit.Timeout > 0 && *timeoutFlag == 0 {
					to = j.unit.Timeout
					if *tier == "thorough" {
						to *= 10
					}
				}
				if phase1 && len(j.unit.VC.Splits) > 0 && j.obl.Kind != "split" && j.obl.Kind != "cover" {
					to = 3
				}
				if j.obl.Cover && *tier != "thorough" && to > 40 {
					// reachability probes only guard against vacuity; an undecided probe is reported as
					// such (never as a violation), so the quick tier does not wait long for them
					to = 40
				}
				tag := j.obl.Name
				if j.cs != "" {
					tag += "/" + j.cs
				}
				var r *Result
				q := j.unit.VC.Query(j.obl, p.preludeFor(j.unit.Pkg), j.split, true)
				// relevance slicing: try with only the assumptions that share constants with the goal; only
				// `unsat` answers of a sliced query are conclusive.  The budgets are generous because a
				// sliced proof is usually seconds while the unsliced query can be minutes; solver time
				// limits start when the process obtains a machine-wide slot, so load does not eat them.
				if !j.obl.Cover && j.obl.nAssume > 12 && !*noSlice {
					for depth := 0; depth <= 2 && r == nil; depth++ {
						var keep map[int]bool
						if depth == 0 {
							keep = j.unit.VC.LightSlice(j.obl, 20000)
						} else {
							keep = j.unit.VC.Slice(j.obl, depth)
						}
						if len(keep) >= j.obl.nAssume {
							break
						}
						qs := j.unit.VC.QuerySliced(j.obl, p.preludeFor(j.unit.Pkg), j.split, false, keep)
						// 20/40/60 s for the default limit; units that declare a longer limit get
						// proportionally longer slice budgets (their sliced proofs are tens of seconds,
						// and a budget that is only just enough turns load into a spurious timeout)
						unitSt := 20
						if to/6 > unitSt {
							unitSt = to / 6
						}
						if unitSt > 60 {
							unitSt = 60 // thorough limits are ten times longer; a failed slice must not cost that
						}
						st := unitSt * (depth + 1)
						if st > to {
							st = to
						}
						rs := solve(qs, workDir, tag+".slice", st, seed)
						if rs.Status == "unsat" {
							rs.Solver += fmt.Sprintf("(slice%d:%d/%d)", depth, len(keep), j.obl.nAssume)
							r = rs
						}
					}
				}
				if r == nil {
					r = solve(q, workDir, tag, to, seed)
				}
				if *failFast && !(phase1 && len(j.unit.VC.Splits) > 0 && j.obl.Kind != "split") && !j.obl.Cover && r.Status != "unsat" && j.obl.Known == nil && matchKnown(known, *prop, j.obl.Name) == nil {
					fmt.Printf("VIOLATION property=%s replay=- obligation=%s status=%s (fail-fast: remaining obligations not run) no-failing-input-found\n", *prop, tag, r.Status)
					os.Exit(1)
				}
				r.Unit = j.unit
				r.Obl = j.obl
				r.Case = j.cs
				if *keep && r.File == "" {
					os.WriteFile(filepath.Join(workDir, sanitize(tag)+".smt2"), []byte(q), 0o644)
				}
				res[i] = r
			}(i)
		}
		wg.Wait()
		return res
	}
	var phase1 []job
	var deferred []string
	for _, u := range units {
		if u.Err != "" {
			continue
		}
		for _, o := range u.VC.Obls {
			if *match != "" && !strings.Contains(o.Name, strings.Split(*match, "/")[0]) {
				continue
			}
			if o.Slow && *tier != "thorough" {
				deferred = append(deferred, o.Name)
				continue
			}
			phase1 = append(phase1, job{u, o, "", nil})
		}
	}
	r1 := runJobs(phase1, true)
	var results []*Result
	var phase2 []job
	for i, r := range r1 {
		j := phase1[i]
		if r.OK() || r.Status == "sat" || r.Status == "unsat" || len(j.unit.VC.Splits) == 0 || j.obl.Kind == "split" || j.obl.Kind == "cover" {
			results = append(results, r)
			continue
		}
		for _, c := range splitCases(j.unit.VC.Splits) {
			if *match != "" && strings.Contains(*match, "/") && !strings.Contains(c.name, strings.SplitN(*match, "/", 2)[1]) {
				continue
			}
			phase2 = append(phase2, job{j.unit, j.obl, c.name, c.asserts})
		}
	}
	results = append(results, runJobs(phase2, false)...)
	solveSecs := time.Since(start).Seconds() - loadSecs - vcSecs

	// verdicts
	violations := 0
	var undecidedCovers []string
	engineErrors := 0
	knownHits := 0
	discharged := 0
	total := 0
	var failed []map[string]interface{}
	bySolver := map[string]int{}
	var solverTime float64
	var samples []map[string]interface{}
	printedKnown := map[string]bool{}
	for _, u := range units {
		if u.Err != "" {
			total++
			name := u.Name + "#structure"
			path := writeReplay(replayDir, name, map[string]interface{}{"obligation": name, "kind": "structure", "reason": u.Err,
				"verdict": "no-failing-input-found", "note": "the function or its contract is outside the verifier's subset or no longer matches its contract"})
			if kf := matchKnown(known, *prop, name); kf != nil {
				if !printedKnown[name] {
					fmt.Printf("KNOWN-FINDING: property=%s %s: %s\n", *prop, name, kf.What)
					printedKnown[name] = true
				}
				knownHits++
				continue
			}
			fmt.Printf("FAILED %s: %s\n", name, u.Err)
			fmt.Printf("VIOLATION property=%s replay=%s obligation=%s no-failing-input-found\n", *prop, path, name)
			violations++
			failed = append(failed, map[string]interface{}{"obligation": name, "status": "structure", "reason": u.Err})
		}
	}
	for _, r := range results {
		total++
		name := r.Obl.Name
		if r.Case != "" {
			name += "/" + r.Case
		}
		solverTime += r.Seconds
		if r.OK() && r.Obl.Known != nil {
			total-- // the known defect no longer shows on its input class (repaired): nothing to report
			continue
		}
		if r.OK() {
			discharged++
			bySolver[r.Solver]++
			if len(samples) < 12 || r.Seconds > 5 {
				if len(samples) < 40 {
					samples = append(samples, map[string]interface{}{"obligation": name, "kind": r.Obl.Kind, "solver": r.Solver, "seconds": round3(r.Seconds), "query_bytes": r.Size, "clause": r.Obl.Src})
				}
			}
			if *verbose {
				fmt.Printf("ok   %-70s %s %.2fs\n", name, r.Solver, r.Seconds)
			}
			continue
		}
		if r.Obl.Known != nil {
			// the listed input class of a known finding still fails: report it as such, never as a violation
			key := r.Obl.Name
			if !printedKnown[key] {
				fmt.Printf("KNOWN-FINDING: property=%s %s: %s\n", *prop, strings.TrimSuffix(r.Obl.Name, "!known"), r.Obl.Known.What)
				printedKnown[key] = true
			}
			knownHits++
			total--
			continue
		}
		if r.Obl.Cover && (r.Status == "timeout" || r.Status == "unknown") {
			// a reachability probe the solvers could not decide is not evidence of anything: it is
			// reported as undecided, never as a violation (only an `unsat` cover is a vacuity alarm)
			undecidedCovers = append(undecidedCovers, name)
			total--
			continue
		}
		// failed obligation
		rep := map[string]interface{}{"obligation": name, "kind": r.Obl.Kind, "clause": r.Obl.Src, "position": r.Obl.Pos,
			"status": r.Status, "solver": r.Solver, "seconds": round3(r.Seconds), "solver_output": truncate(r.Output, 4000), "query_file": r.File}
		verdict := "no-failing-input-found"
		if r.Status == "sat" && !r.Obl.Cover {
			inputs := map[string]string{}
			for _, in := range r.Unit.VC.Inputs {
				if v, ok := r.Model[in.Name]; ok {
					inputs[in.Path] = v
				}
			}
			rep["model"] = inputs
			rp := replayModel(p, *verif, r, inputs)
			for k, v := range rp {
				rep[k] = v
			}
			if rp["verdict"] == "reproduced" {
				verdict = "reproduced"
			}
		}
		rep["verdict"] = verdict
		path := writeReplay(replayDir, name, rep)
		if kf := matchKnown(known, *prop, r.Obl.Name); kf != nil {
			if !printedKnown[r.Obl.Name] {
				fmt.Printf("KNOWN-FINDING: property=%s %s: %s\n", *prop, r.Obl.Name, kf.What)
				printedKnown[r.Obl.Name] = true
			}
			knownHits++
			continue
		}
		violations++
		if r.Status == "error" {
			engineErrors++
			fmt.Printf("ENGINE-ERROR %s: %s\n", name, truncate(strings.TrimSpace(r.Output), 300))
		}
		fmt.Printf("FAILED %s [%s] status=%s solver=%s %.1fs\n   clause: %s\n", name, r.Obl.Kind, r.Status, r.Solver, r.Seconds, r.Obl.Src)
		if m, ok := rep["model"].(map[string]string); ok && len(m) > 0 {
			fmt.Printf("   counterexample: %s\n", modelString(m))
		}
		line := fmt.Sprintf("VIOLATION property=%s replay=%s obligation=%s", *prop, path, name)
		if verdict != "reproduced" {
			line += " no-failing-input-found"
		}
		fmt.Println(line)
		failed = append(failed, map[string]interface{}{"obligation": name, "status": r.Status, "verdict": verdict})
	}

	// open findings of this property whose obligation was not generated in this tier (unit deferred
	// to the thorough tier): still listed, so that every run names every recorded finding
	if *only == "" && *match == "" {
		ran := map[string]bool{}
		for _, r := range results {
			ran[strings.TrimSuffix(r.Obl.Name, "!known")] = true
		}
		for i := range known {
			kf := &known[i]
			if kf.Status == "open" && kf.Property == *prop && !ran[kf.Obligation] && !printedKnown[kf.Obligation] {
				fmt.Printf("KNOWN-FINDING: property=%s %s: %s [obligation is generated in the thorough tier only]\n", *prop, kf.Obligation, kf.What)
				printedKnown[kf.Obligation] = true
			}
		}
	}
	wall := time.Since(start).Seconds()
	// evidence
	var funcs, lemmas, trustedUnits, bounded []string
	for _, u := range units {
		if u.Kind == "func" {
			if u.Trusted != "" {
				trustedUnits = append(trustedUnits, u.Name+" (contract assumed: "+u.Trusted+")")
			} else {
				funcs = append(funcs, u.Name)
			}
		} else {
			lemmas = append(lemmas, u.Name)
		}
		bounded = append(bounded, u.Bounded...)
		if u.Contract != nil && u.Contract.Bounded != "" {
			bounded = append(bounded, u.Name+": "+u.Contract.Bounded)
		}
	}
	notesSet := map[string]bool{}
	var notes []string
	for _, u := range units {
		for _, n := range u.VC.Notes {
			if !notesSet[n] {
				notesSet[n] = true
				notes = append(notes, n)
			}
		}
	}
	sort.Strings(notes)
	trusted := []string{
		"golang.org/x/tools go/ssa v0.29.0 construction is faithful to Go semantics (bit-vector semantics of Go integers: wrapping, Go shift rules)",
		"SMT solvers z3 5.1.0 / z3 4.8.12 / cvc5 1.0.3 are sound (raced; first definite answer wins)",
		"specification files /verif/spec: " + strings.Join(append([]string{"builtin.smt2"}, p.contracts.Imports...), ", "),
		"Go runs package initialisers before any other code; constant tables are read from the working tree's composite literals",
		"partial correctness only: termination is not proved",
	}
	trusted = append(trusted, trustedUnits...)
	trusted = append(trusted, p.contracts.Scan...)
	level := "proof"
	ev := map[string]interface{}{
		"property_id": *prop,
		"tier":        *tier,
		"seed":        seed,
		"level":       level,
		"wall_s":      round3(wall),
		"violations":  violations,
		"coverage": map[string]interface{}{
			"obligations":           total,
			"discharged":            discharged + knownHits*0,
			"checker_cmd":           fmt.Sprintf("/verif/check %s --tier %s", *prop, *tier),
			"trusted_base":          trusted,
			"functions_under_contract": funcs,
			"lemmas":                lemmas,
			"bounded":               bounded,
			"discharged_by_solver":  bySolver,
			"solver_time_s":         round3(solverTime),
			"load_s":                round3(loadSecs),
			"vcgen_s":               round3(vcSecs),
			"solve_wall_s":          round3(solveSecs),
			"known_findings_hit":    knownHits,
			"undecided_reachability_probes": undecidedCovers,
			"deferred_to_thorough":  append(deferred, deferredUnits...),
			"failed":                failed,
			"samples":               samples,
			"contract_files":        p.contracts.Files,
			"contract_source":       p.contractSource,
			"translation_notes":     notes,
		},
		"assumptions": append(append([]string{}, trusted...), notes...),
	}
	if !*noEvidence {
		os.MkdirAll(filepath.Join(*verif, "evidence"), 0o755)
		data, _ := json.MarshalIndent(ev, "", " ")
		os.WriteFile(filepath.Join(*verif, "evidence", *prop+".json"), data, 0o644)
	}
	fmt.Printf("govc %s [%s]: %d units, %d obligations, %d discharged, %d known-finding, %d violations; load %.1fs vcgen %.1fs solve %.1fs\n",
		*prop, *tier, len(units), total, discharged, knownHits, violations, loadSecs, vcSecs, solveSecs)
	if engineErrors > 0 {
		fmt.Fprintf(os.Stderr, "govc: %d malformed queries (engine fault): failing closed\n", engineErrors)
		return 2
	}
	if violations > 0 {
		return 1
	}
	return 0
}

func flagSet(fs *flag.FlagSet, name string) bool {
	found := false
	fs.Visit(func(f *flag.Flag) {
		if f.Name == name {
			found = true
		}
	})
	return found
}

func round3(f float64) float64 { return float64(int(f*1000+0.5)) / 1000 }

func truncate(s string, n int) string {
	if len(s) > n {
		return s[:n] + "..."
	}
	return s
}

func modelString(m map[string]string) string {
	ks := sortedKeys(m)
	var parts []string
	for _, k := range ks {
		parts = append(parts, k+"="+m[k])
	}
	s := strings.Join(parts, " ")
	return truncate(s, 1500)
}

func matchKnown(known []KnownFinding, prop, obl string) *KnownFinding {
	for i := range known {
		k := &known[i]
		if k.Status == "open" && k.Property == prop && k.Obligation == obl && k.InputClass == "" {
			// findings with an input class are handled by splitting the obligation (see verify.go); only
			// class-less findings (e.g. structure errors) are matched by name
			return k
		}
	}
	return nil
}

func writeReplay(dir, name string, rep map[string]interface{}) string {
	path := filepath.Join(dir, sanitize(name)+".json")
	data, _ := json.MarshalIndent(rep, "", " ")
	os.WriteFile(path, data, 0o644)
	return path
}

type splitCase struct {
	name    string
	asserts []T
}

func splitCases(sp []SplitCase) []splitCase {
	if len(sp) == 0 {
		return nil
	}
	out := []splitCase{{}}
	for _, s := range sp {
		var next []splitCase
		for _, c := range out {
			for k := s.Lo; k <= s.Hi; k++ {
				n := c.name
				if n != "" {
					n += ","
				}
				n += fmt.Sprintf("%s=%d", sanitize(s.Src), k)
				var eqn T
				if s.BitsOf != "" {
					eqn = T{fmt.Sprintf("(=bits %s %d %d %d)", s.BitsOf, s.BitHi, s.BitLo, k), BoolSort}
				} else {
					eqn = mkEq(s.Term, litBig(s.Term.W(), bigInt(k)))
				}
				as := append(append([]T(nil), c.asserts...), eqn)
				next = append(next, splitCase{n, as})
			}
		}
		out = next
	}
	return out
}

// onlyMatch: the --only filter is a comma-separated list of substrings of unit names.
func onlyMatch(name, only string) bool {
	if only == "" {
		return true
	}
	for _, s := range strings.Split(only, ",") {
		if s != "" && strings.Contains(name, s) {
			return true
		}
	}
	return false
}
