package main

import (
	"fmt"
	"go/token"
	"go/types"
	"sort"

	"golang.org/x/tools/go/ssa"
)

// execBlock runs the non-phi instructions of b and returns its outgoing edges.
func (x *Exec) execBlock(fr *frame, b *ssa.BasicBlock, st State) []edge {
	st = st.clone()
	for _, in := range b.Instrs {
		switch i := in.(type) {
		case *ssa.Phi:
			continue
		case *ssa.DebugRef:
			x.debugRef(fr, &st, i)
			continue
		case *ssa.If:
			c := x.sc(fr, &st, i.Cond)
			ct := x.vc.def("c", c.T)
			s1 := st.clone()
			s1.reach = x.vc.def("reach", mkAnd(st.reach, ct))
			s2 := st
			s2.reach = x.vc.def("reach", mkAnd(st.reach, mkNot(ct)))
			var out []edge
			if s1.reach.S != "false" {
				out = append(out, edge{b, b.Succs[0], s1})
			}
			if s2.reach.S != "false" {
				out = append(out, edge{b, b.Succs[1], s2})
			}
			return out
		case *ssa.Jump:
			return []edge{{b, b.Succs[0], st}}
		case *ssa.Return:
			var res Value
			switch len(i.Results) {
			case 0:
			case 1:
				res = x.operand(fr, &st, i.Results[0])
			default:
				t := Tup{}
				for _, r := range i.Results {
					t.Elems = append(t.Elems, x.operand(fr, &st, r))
				}
				res = t
			}
			if fr.top && x.fc != nil && len(x.fc.AtReturn) > 0 {
				ord := returnOrdinal(fr.fn, i)
				for k, c := range x.fc.AtReturn[ord] {
					o := x.loopOpts(fr, nil)
					o.result = res
					g := x.evalGoalClause(fr, &st, c, o)
					pos := ""
					if i.Pos().IsValid() {
						pp := x.prog.fset.Position(i.Pos())
						pos = fmt.Sprintf("%s:%d", pp.Filename, pp.Line)
					}
					x.vc.oblige(&Obligation{Name: fmt.Sprintf("%s#return%d.cond%d", fr.name, ord, k+1), Kind: "post", Func: fr.name,
						Guard: st.reach, Goal: g, Src: fmt.Sprintf("at return %d (%s): %s", ord, pos, c.Src), Pos: pos, Slow: c.Slow})
				}
			}
			fr.rets = append(fr.rets, edge{b, nil, st})
			fr.retVals = append(fr.retVals, res)
			return nil
		case *ssa.Panic:
			x.obligeSafety(fr, &st, "panic", tFalse, i)
			return nil
		default:
			x.execInstr(fr, &st, in)
		}
	}
	bail("block %d of %s has no terminator", b.Index, fr.name)
	return nil
}

func (x *Exec) debugRef(fr *frame, st *State, d *ssa.DebugRef) {
	id, ok := d.Expr.(interface{ String() string })
	_ = id
	_ = ok
	obj := d.Object()
	if obj == nil {
		return
	}
	if tv, isVar := obj.(*types.Var); !isVar || tv.IsField() {
		// only variables are named; a field selector (x.f) must not shadow a variable called f
		return
	}
	v, has := st.env[d.X]
	if !has {
		if c, isC := d.X.(*ssa.Const); isC {
			v = x.constValue(c)
		} else {
			return
		}
	}
	if d.IsAddr {
		st.names["&"+obj.Name()] = v
		return
	}
	st.names[obj.Name()] = v
}

func (x *Exec) setVal(st *State, v ssa.Value, val Value) {
	st.env[v] = x.nameValue(v.Name(), val)
}

func (x *Exec) execInstr(fr *frame, st *State, in ssa.Instruction) {
	switch i := in.(type) {
	case *ssa.Alloc:
		elem := i.Type().(*types.Pointer).Elem()
		name := i.Comment
		if name == "" {
			name = "alloc"
		}
		o := x.newObject(name, "alloc", elem)
		st.mem[o] = x.zeroValue(elem)
		st.env[i] = Ptr{Obj: o}
		if i.Comment != "" {
			st.names["&"+i.Comment] = Ptr{Obj: o}
		}
	case *ssa.Store:
		p, ok := x.operand(fr, st, i.Addr).(Ptr)
		if !ok {
			bail("%s: store through non-pointer", fr.name)
		}
		val := x.operand(fr, st, i.Val)
		if fa, isFA := i.Addr.(*ssa.FieldAddr); isFA && fr.top && x.fc != nil && x.fc.AtStore != nil {
			stt := fa.X.Type().Underlying().(*types.Pointer).Elem().Underlying().(*types.Struct)
			for _, c := range x.fc.AtStore[stt.Field(fa.Field).Name()] {
				o := x.loopOpts(fr, nil)
				o.binds = append(o.binds, map[string]Value{"value": val})
				g := x.evalGoalClause(fr, st, c, o)
				n := x.count(fr.name + "#atstore")
				x.vc.oblige(&Obligation{Name: fmt.Sprintf("%s#atstore.%s@%d", fr.name, stt.Field(fa.Field).Name(), n), Kind: "pre", Func: fr.name,
					Guard: st.reach, Goal: g, Src: "at every store to ." + stt.Field(fa.Field).Name() + ": " + c.Src, Pos: fmt.Sprintf("%s:%d", c.File, c.Line)})
			}
		}
		x.store(st, p, val)
	case *ssa.UnOp:
		x.unop(fr, st, i)
	case *ssa.BinOp:
		x.setVal(st, i, x.binop(fr, st, i.Op, x.operand(fr, st, i.X), x.operand(fr, st, i.Y), i.X.Type(), i.Y.Type(), i))
	case *ssa.Convert:
		x.setVal(st, i, x.convert(fr, st, x.operand(fr, st, i.X), i.X.Type(), i.Type(), i))
	case *ssa.ChangeType:
		st.env[i] = retype(x.operand(fr, st, i.X), i.Type())
	case *ssa.ChangeInterface:
		st.env[i] = x.operand(fr, st, i.X)
	case *ssa.MakeInterface:
		notNil := tFalse
		st.env[i] = Opq{Typ: i.Type(), Inner: x.operand(fr, st, i.X), Tag: "iface", NilC: &notNil}
	case *ssa.FieldAddr:
		p, ok := x.operand(fr, st, i.X).(Ptr)
		if !ok {
			bail("%s: FieldAddr on non-pointer", fr.name)
		}
		if p.Nil {
			x.obligeSafety(fr, st, "nil", tFalse, i)
			bail("%s: field address through nil pointer", fr.name)
		}
		if p.May != nil {
			x.obligeSafety(fr, st, "nil", mkNot(*p.May), i)
		}
		np := Ptr{Obj: p.Obj, Path: append(append([]Sel(nil), p.Path...), Sel{Field: i.Field})}
		st.env[i] = np
	case *ssa.Field:
		a, ok := x.operand(fr, st, i.X).(Agg)
		if !ok {
			bail("%s: Field on non-struct %T", fr.name, x.operand(fr, st, i.X))
		}
		st.env[i] = a.Elems[i.Field]
	case *ssa.IndexAddr:
		x.indexAddr(fr, st, i)
	case *ssa.Index:
		x.index(fr, st, i)
	case *ssa.Lookup:
		x.lookup(fr, st, i)
	case *ssa.Slice:
		x.slice(fr, st, i)
	case *ssa.MakeSlice:
		et := i.Type().Underlying().(*types.Slice).Elem()
		o := x.newObject("make", "backing", nil)
		o.ElemTyp = et
		st.mem[o] = Big{Elem: x.zeroDepth(et, 1), Typ: et, N: -1}
		ln := resize(x.sc(fr, st, i.Len).T, 64, true)
		cp := resize(x.sc(fr, st, i.Cap).T, 64, true)
		x.obligeSafety(fr, st, "makeslice", mkAnd(bvcmp("bvsle", lit(64, 0), ln), bvcmp("bvsle", ln, cp)), i)
		st.env[i] = Slc{Obj: o, Off: lit(64, 0), Len: ln, Cap: cp}
	case *ssa.Extract:
		t, ok := x.operand(fr, st, i.Tuple).(Tup)
		if !ok {
			bail("%s: Extract from non-tuple", fr.name)
		}
		st.env[i] = t.Elems[i.Index]
	case *ssa.Call:
		res := x.call(fr, st, i)
		if res != nil {
			st.env[i] = x.nameValue(i.Name(), res)
		}
	case *ssa.Defer:
		rec := deferRec{guard: tTrue, call: i}
		for _, a := range i.Call.Args {
			rec.args = append(rec.args, x.operand(fr, st, a))
		}
		if !i.Call.IsInvoke() {
			rec.fn = x.operand(fr, st, i.Call.Value)
		}
		st.defers = append(st.defers, rec)
	case *ssa.RunDefers:
		x.runDefers(fr, st)
	case *ssa.MakeClosure:
		c := Clo{Fn: i.Fn.(*ssa.Function)}
		for _, b := range i.Bindings {
			c.Bind = append(c.Bind, x.operand(fr, st, b))
		}
		st.env[i] = c
	case *ssa.Select:
		x.selectInstr(fr, st, i)
	case *ssa.TypeAssert:
		st.env[i] = x.freshOpaqueOrValue(i.Type(), "typeassert")
	case *ssa.MakeChan, *ssa.MakeMap:
		st.env[in.(ssa.Value)] = Opq{Typ: in.(ssa.Value).Type(), Tag: "make"}
	case *ssa.Go:
		bail("%s: goroutine start is outside the verified subset", fr.name)
	case *ssa.Send:
		bail("%s: channel send is outside the verified subset", fr.name)
	case *ssa.MapUpdate:
		bail("%s: map update is outside the verified subset", fr.name)
	case *ssa.Range, *ssa.Next:
		bail("%s: range over string/map is outside the verified subset", fr.name)
	default:
		bail("%s: unsupported instruction %T: %v", fr.name, in, in)
	}
}

func (x *Exec) freshOpaqueOrValue(t types.Type, hint string) Value {
	if tt, ok := t.(*types.Tuple); ok {
		tp := Tup{}
		for k := 0; k < tt.Len(); k++ {
			tp.Elems = append(tp.Elems, x.freshValue(tt.At(k).Type(), hint))
		}
		return tp
	}
	return x.freshValue(t, hint)
}

func retype(v Value, t types.Type) Value {
	switch a := v.(type) {
	case Sc:
		if _, signed, ok := scalarSort(t); ok {
			a.Signed = signed
		}
		return a
	case Agg:
		return Agg{a.Elems, t}
	}
	return v
}

func (x *Exec) unop(fr *frame, st *State, i *ssa.UnOp) {
	switch i.Op {
	case token.MUL:
		p, ok := x.operand(fr, st, i.X).(Ptr)
		if !ok {
			bail("%s: load through non-pointer %T (%v)", fr.name, x.operand(fr, st, i.X), i)
		}
		if p.Nil {
			x.obligeSafety(fr, st, "nil", tFalse, i)
			bail("%s: load through nil pointer", fr.name)
		}
		if p.May != nil {
			x.obligeSafety(fr, st, "nil", mkNot(*p.May), i)
		}
		v := x.load(st, p)
		st.env[i] = x.nameValue(i.Name(), v)
	case token.NOT:
		s := x.sc(fr, st, i.X)
		x.setVal(st, i, Sc{T: mkNot(s.T)})
	case token.SUB:
		s := x.sc(fr, st, i.X)
		x.setVal(st, i, Sc{T: app("bvneg", s.Sort, s.T), Signed: s.Signed})
	case token.XOR:
		s := x.sc(fr, st, i.X)
		x.setVal(st, i, Sc{T: app("bvnot", s.Sort, s.T), Signed: s.Signed})
	case token.ARROW:
		// channel receive: value not modelled
		st.env[i] = x.freshOpaqueOrValue(i.Type(), "recv")
	default:
		bail("%s: unsupported unary op %s", fr.name, i.Op)
	}
}

func (x *Exec) binop(fr *frame, st *State, op token.Token, a, b Value, ta, tb types.Type, in ssa.Instruction) Value {
	sa, ok1 := a.(Sc)
	sb, ok2 := b.(Sc)
	if !ok1 || !ok2 {
		// comparisons of pointers / slices with nil, opaque values
		switch op {
		case token.EQL, token.NEQ:
			r := x.compareNonScalar(fr, a, b)
			if op == token.NEQ {
				r = mkNot(r)
			}
			return Sc{T: r}
		}
		bail("%s: binary op %s on non-scalars %T, %T", fr.name, op, a, b)
	}
	if sa.IsBool() {
		switch op {
		case token.EQL:
			return Sc{T: mkEq(sa.T, sb.T)}
		case token.NEQ:
			return Sc{T: mkNot(mkEq(sa.T, sb.T))}
		case token.AND, token.LAND:
			return Sc{T: mkAnd(sa.T, sb.T)}
		case token.OR, token.LOR:
			return Sc{T: mkOr(sa.T, sb.T)}
		}
		bail("%s: bool op %s", fr.name, op)
	}
	signed := sa.Signed
	switch op {
	case token.SHL, token.SHR:
		if sb.Signed {
			x.obligeSafety(fr, st, "shift", bvcmp("bvsge", sb.T, lit0(sb.W())), in)
		}
		o := "<<"
		if op == token.SHR {
			o = ">>"
		}
		return Sc{T: goShift(o, sa.T, sb.T, sb.Signed, signed), Signed: signed}
	}
	if sa.Sort != sb.Sort {
		bail("%s: binary op %s width mismatch %s vs %s", fr.name, op, sa.Sort, sb.Sort)
	}
	switch op {
	case token.ADD:
		return Sc{T: bvbin("bvadd", sa.T, sb.T), Signed: signed}
	case token.SUB:
		return Sc{T: bvbin("bvsub", sa.T, sb.T), Signed: signed}
	case token.MUL:
		return Sc{T: bvbin("bvmul", sa.T, sb.T), Signed: signed}
	case token.QUO, token.REM:
		x.obligeSafety(fr, st, "div", mkNot(mkEq(sb.T, lit0(sb.W()))), in)
		o := "bvudiv"
		if op == token.REM {
			o = "bvurem"
		}
		if signed {
			o = "bvsdiv"
			if op == token.REM {
				o = "bvsrem"
			}
		}
		return Sc{T: bvbin(o, sa.T, sb.T), Signed: signed}
	case token.AND:
		return Sc{T: bvbin("bvand", sa.T, sb.T), Signed: signed}
	case token.OR:
		return Sc{T: bvbin("bvor", sa.T, sb.T), Signed: signed}
	case token.XOR:
		return Sc{T: bvbin("bvxor", sa.T, sb.T), Signed: signed}
	case token.AND_NOT:
		return Sc{T: bvbin("bvand", sa.T, app("bvnot", sb.Sort, sb.T)), Signed: signed}
	case token.EQL:
		return Sc{T: mkEq(sa.T, sb.T)}
	case token.NEQ:
		return Sc{T: mkNot(mkEq(sa.T, sb.T))}
	case token.LSS:
		return Sc{T: bvcmp(pick(signed, "bvslt", "bvult"), sa.T, sb.T)}
	case token.LEQ:
		return Sc{T: bvcmp(pick(signed, "bvsle", "bvule"), sa.T, sb.T)}
	case token.GTR:
		return Sc{T: bvcmp(pick(signed, "bvsgt", "bvugt"), sa.T, sb.T)}
	case token.GEQ:
		return Sc{T: bvcmp(pick(signed, "bvsge", "bvuge"), sa.T, sb.T)}
	}
	bail("%s: unsupported binary op %s", fr.name, op)
	return nil
}

func pick(c bool, a, b string) string {
	if c {
		return a
	}
	return b
}

func (x *Exec) compareNonScalar(fr *frame, a, b Value) T {
	switch p := a.(type) {
	case Ptr:
		q, ok := b.(Ptr)
		if !ok {
			bail("%s: pointer compared with %T", fr.name, b)
		}
		if p.Nil && q.Nil {
			return tTrue
		}
		if p.Nil != q.Nil {
			return mkEq(p.nilCond(), q.nilCond())
		}
		if p.Obj != q.Obj {
			return mkAnd(p.nilCond(), q.nilCond())
		}
		eq, ok := valueEq(p, q)
		if !ok {
			return mkAnd(p.nilCond(), q.nilCond())
		}
		return eq
	case Slc:
		q, ok := b.(Slc)
		if !ok {
			bail("%s: slice compared with %T", fr.name, b)
		}
		if p.Nil && q.Nil {
			return tTrue
		}
		if p.Nil != q.Nil {
			return tFalse
		}
		bail("%s: slice comparison", fr.name)
	case Opq:
		if q, ok := b.(Opq); ok && p.NilC != nil && q.NilC != nil {
			// comparison of interface values where one side is the nil constant
			if q.NilC.S == "true" {
				return *p.NilC
			}
			if p.NilC.S == "true" {
				return *q.NilC
			}
		}
		if q, ok := b.(Ptr); ok && q.Nil && p.NilC != nil {
			return *p.NilC
		}
		// other interface / chan / func comparisons: not modelled -> nondeterministic
		return x.vc.fresh("opqeq", BoolSort)
	case Clo:
		return tFalse
	case Agg:
		eq, ok := valueEq(a, b)
		if ok {
			return eq
		}
	}
	if q, ok := b.(Opq); ok {
		if pp, isP := a.(Ptr); isP && pp.Nil && q.NilC != nil {
			return *q.NilC
		}
		return x.vc.fresh("opqeq", BoolSort)
	}
	bail("%s: comparison of %T and %T", fr.name, a, b)
	return tFalse
}

func (x *Exec) convert(fr *frame, st *State, v Value, from, to types.Type, in ssa.Instruction) Value {
	s, ok := v.(Sc)
	if ok {
		sort, signed, ok2 := scalarSort(to)
		if ok2 && sort != BoolSort && s.W() > 0 {
			w := sortWidth(sort)
			r := resize(s.T, w, s.Signed)
			if x.exact && fr.top {
				// value-preserving obligation: converting back gives the original and the sign is kept
				var goal T
				big := s.W()
				if w > big {
					big = w
				}
				big++
				// compare mathematical values: extend both to big bits according to their signedness
				goal = mkEq(resize(s.T, big, s.Signed), resize(r, big, signed))
				if goal.S != "true" {
					pos := ""
					if in.Pos().IsValid() {
						p := x.prog.fset.Position(in.Pos())
						pos = fmt.Sprintf("%s:%d", p.Filename, p.Line)
					}
					n := x.count(fr.name + "#conv")
					x.vc.oblige(&Obligation{Name: fmt.Sprintf("%s#conv@%d", fr.name, n), Kind: "conv", Func: fr.name,
						Guard: st.reach, Goal: goal, Pos: pos, Src: fmt.Sprintf("%v", in)})
				}
			}
			return Sc{T: r, Signed: signed}
		}
	}
	// string <-> []byte and others: opaque
	switch to.Underlying().(type) {
	case *types.Slice:
		if o, isO := v.(Opq); isO && o.Str != nil {
			// []byte("literal")
			et := to.Underlying().(*types.Slice).Elem()
			obj := x.newObject("strbytes", "backing", nil)
			obj.ElemTyp = et
			val := Big{Elem: x.zeroDepth(et, 1), Typ: et, N: -1}
			for k := 0; k < len(*o.Str); k++ {
				val = storeBig(val, lit(64, uint64(k)), Sc{T: lit(8, uint64((*o.Str)[k]))}).(Big)
			}
			st.mem[obj] = val
			n := lit(64, uint64(len(*o.Str)))
			return Slc{Obj: obj, Off: lit(64, 0), Len: n, Cap: n}
		}
		return x.freshValue(to, "conv")
	}
	return Opq{Typ: to, Inner: v, Tag: "convert"}
}

func (x *Exec) indexAddr(fr *frame, st *State, i *ssa.IndexAddr) {
	base := x.operand(fr, st, i.X)
	idx := x.sc(fr, st, i.Index)
	ix := resize(idx.T, 64, idx.Signed)
	switch p := base.(type) {
	case Ptr:
		arr := i.X.Type().Underlying().(*types.Pointer).Elem().Underlying().(*types.Array)
		x.obligeSafety(fr, st, "bounds", bvcmp("bvult", ix, lit(64, uint64(arr.Len()))), i)
		st.env[i] = x.nameValue(i.Name(), Ptr{Obj: p.Obj, Path: append(append([]Sel(nil), p.Path...), Sel{Field: -1, Idx: ix})})
	case Slc:
		x.obligeSafety(fr, st, "bounds", bvcmp("bvult", ix, p.Len), i)
		if p.Nil {
			bail("%s: index into nil slice", fr.name)
		}
		st.env[i] = x.nameValue(i.Name(), Ptr{Obj: p.Obj, Path: append(append([]Sel(nil), p.Path...), Sel{Field: -1, Idx: bvbin("bvadd", p.Off, ix)})})
	default:
		bail("%s: IndexAddr on %T", fr.name, base)
	}
}

func (x *Exec) index(fr *frame, st *State, i *ssa.Index) {
	base := x.operand(fr, st, i.X)
	idx := x.sc(fr, st, i.Index)
	ix := resize(idx.T, 64, idx.Signed)
	switch a := base.(type) {
	case Agg:
		x.obligeSafety(fr, st, "bounds", bvcmp("bvult", ix, lit(64, uint64(len(a.Elems)))), i)
		st.env[i] = x.nameValue(i.Name(), x.readPath(a, []Sel{{Field: -1, Idx: ix}}))
	case Big:
		if a.N >= 0 {
			x.obligeSafety(fr, st, "bounds", bvcmp("bvult", ix, lit(64, uint64(a.N))), i)
		}
		st.env[i] = x.nameValue(i.Name(), selectBig(a, ix))
	case Opq:
		if a.Str != nil {
			x.obligeSafety(fr, st, "bounds", bvcmp("bvult", ix, lit(64, uint64(len(*a.Str)))), i)
			st.env[i] = x.nameValue(i.Name(), Sc{T: x.strByte(*a.Str, ix)})
			return
		}
		bail("%s: index of opaque value", fr.name)
	default:
		bail("%s: Index on %T", fr.name, base)
	}
}

func (x *Exec) strByte(s string, ix T) T {
	if c, ok := constVal(ix); ok && int(c) < len(s) {
		return lit(8, uint64(s[c]))
	}
	r := lit(8, 0)
	for k := len(s) - 1; k >= 0; k-- {
		r = mkIte(mkEq(ix, lit(64, uint64(k))), lit(8, uint64(s[k])), r)
	}
	return r
}

func (x *Exec) lookup(fr *frame, st *State, i *ssa.Lookup) {
	base := x.operand(fr, st, i.X)
	if o, ok := base.(Opq); ok && o.Str != nil {
		idx := x.sc(fr, st, i.Index)
		ix := resize(idx.T, 64, idx.Signed)
		x.obligeSafety(fr, st, "bounds", bvcmp("bvult", ix, lit(64, uint64(len(*o.Str)))), i)
		st.env[i] = x.nameValue(i.Name(), Sc{T: x.strByte(*o.Str, ix)})
		return
	}
	if s, ok := base.(Slc); ok { // symbolic string modelled as byte slice
		idx := x.sc(fr, st, i.Index)
		ix := resize(idx.T, 64, idx.Signed)
		x.obligeSafety(fr, st, "bounds", bvcmp("bvult", ix, s.Len), i)
		st.env[i] = x.nameValue(i.Name(), x.load(st, Ptr{Obj: s.Obj, Path: append(append([]Sel(nil), s.Path...), Sel{Field: -1, Idx: bvbin("bvadd", s.Off, ix)})}))
		return
	}
	if m := x.prog.constMap(i.X); m != nil {
		// read-only map initialised from a literal
		key := x.sc(fr, st, i.Index)
		res, okv := m.lookup(x, key)
		if i.CommaOk {
			st.env[i] = Tup{[]Value{res, Sc{T: okv}}}
		} else {
			st.env[i] = res
		}
		return
	}
	bail("%s: map/string lookup outside the subset: %v", fr.name, i)
}

func (x *Exec) slice(fr *frame, st *State, i *ssa.Slice) {
	base := x.operand(fr, st, i.X)
	get := func(v ssa.Value, def T) T {
		if v == nil {
			return def
		}
		s := x.sc(fr, st, v)
		return resize(s.T, 64, s.Signed)
	}
	switch p := base.(type) {
	case Slc:
		lo := get(i.Low, lit(64, 0))
		hi := get(i.High, p.Len)
		mx := get(i.Max, p.Cap)
		x.obligeSafety(fr, st, "slice", mkAnd(bvcmp("bvule", lo, hi), bvcmp("bvule", hi, mx), bvcmp("bvule", mx, p.Cap)), i)
		if p.Nil {
			st.env[i] = p
			return
		}
		st.env[i] = x.nameValue(i.Name(), Slc{Obj: p.Obj, Path: p.Path, Off: bvbin("bvadd", p.Off, lo), Len: bvbin("bvsub", hi, lo), Cap: bvbin("bvsub", mx, lo)})
	case Ptr:
		arr := i.X.Type().Underlying().(*types.Pointer).Elem().Underlying().(*types.Array)
		n := lit(64, uint64(arr.Len()))
		lo := get(i.Low, lit(64, 0))
		hi := get(i.High, n)
		mx := get(i.Max, n)
		x.obligeSafety(fr, st, "slice", mkAnd(bvcmp("bvule", lo, hi), bvcmp("bvule", hi, mx), bvcmp("bvule", mx, n)), i)
		st.env[i] = x.nameValue(i.Name(), Slc{Obj: p.Obj, Path: p.Path, Off: lo, Len: bvbin("bvsub", hi, lo), Cap: bvbin("bvsub", mx, lo)})
	case Opq:
		// string slicing: opaque
		st.env[i] = Opq{Typ: i.Type(), Tag: "strslice"}
	default:
		bail("%s: Slice of %T", fr.name, base)
	}
}

func (x *Exec) selectInstr(fr *frame, st *State, i *ssa.Select) {
	if i.Blocking {
		bail("%s: blocking select is outside the verified subset", fr.name)
	}
	// non-blocking poll: which case fires (or none, index -1) is nondeterministic
	x.vc.note("select/default poll in " + fr.name + " is a nondeterministic choice (every arrival time of the signal)")
	idx := x.vc.fresh("select", bvSort(64))
	n := len(i.States)
	x.vc.assume(mkOr(mkEq(idx, litBig(64, bigInt(-1))), bvcmp("bvult", idx, lit(64, uint64(n)))), "select index range")
	tp := Tup{[]Value{Sc{T: idx, Signed: true}, Sc{T: x.vc.fresh("recvOk", BoolSort)}}}
	tt := i.Type().(*types.Tuple)
	for k := 2; k < tt.Len(); k++ {
		tp.Elems = append(tp.Elems, x.freshOpaqueOrValue(tt.At(k).Type(), "recv"))
	}
	st.env[i] = tp
}

func (x *Exec) runDefers(fr *frame, st *State) {
	for k := len(st.defers) - 1; k >= 0; k-- {
		d := st.defers[k]
		if d.guard.S == "false" {
			continue
		}
		// branch: deferred call executed under guard
		s1 := st.clone()
		s1.reach = x.vc.def("reach", mkAnd(st.reach, d.guard))
		s1.defers = nil
		x.callCommon(fr, &s1, &d.call.Call, d.fn, d.args, d.call)
		if d.guard.S == "true" {
			s1.defers = nil
			*st = s1
			continue
		}
		s2 := st.clone()
		s2.reach = x.vc.def("reach", mkAnd(st.reach, mkNot(d.guard)))
		s2.defers = nil
		m := x.mergeStates([]State{s1, s2}, "defer")
		*st = m
	}
	st.defers = nil
}

// returnOrdinal numbers the return statements of a function in source order (1-based).
func returnOrdinal(fn *ssa.Function, r *ssa.Return) int {
	var rets []*ssa.Return
	for _, b := range fn.Blocks {
		for _, in := range b.Instrs {
			if rr, ok := in.(*ssa.Return); ok {
				rets = append(rets, rr)
			}
		}
	}
	sort.SliceStable(rets, func(i, j int) bool { return rets[i].Pos() < rets[j].Pos() })
	for k, rr := range rets {
		if rr == r {
			return k + 1
		}
	}
	return 0
}
