package main

import (
	"runtime"
	"syscall"
	"bytes"
	"context"
	"crypto/sha256"
	"fmt"
	"os"
	"os/exec"
	"path/filepath"
	"regexp"
	"strings"
	"sync"
	"time"
)

type Result struct {
	Unit    *Unit
	Obl     *Obligation
	Case    string
	Status  string // unsat | sat | unknown | timeout | error
	Solver  string
	Seconds float64
	Model   map[string]string
	Output  string
	File    string
	Size    int
}

// OK reports whether the obligation is discharged (cover obligations expect sat).
func (r *Result) OK() bool {
	if r.Obl.Cover {
		return r.Status == "sat"
	}
	return r.Status == "unsat"
}

type solverSpec struct {
	name string
	args func(file string, secs int) []string
	pre  string
	// rewrite of the query text (e.g. a tactic instead of plain check-sat)
	rewrite func(q string) string
}

var solvers = []solverSpec{
	{"z3-new", func(f string, s int) []string { return []string{"z3-new", "-smt2", fmt.Sprintf("-T:%d", s), f} }, "", nil},
	{"z3", func(f string, s int) []string { return []string{"z3", "-smt2", fmt.Sprintf("-T:%d", s), f} }, "", nil},
	{"cvc5", func(f string, s int) []string {
		return []string{"cvc5", "--lang", "smt2", fmt.Sprintf("--tlimit=%d", s*1000), "--produce-models", f}
	}, "(set-logic ALL)\n", nil},
	// z3 with an eager bit-blasting pipeline: decides XOR-heavy hash obligations the default SMT core does not
	{"z3-new-bb", func(f string, s int) []string { return []string{"z3-new", "-smt2", fmt.Sprintf("-T:%d", s), f} }, "",
		func(q string) string {
			return strings.Replace(q, "(check-sat)", "(check-sat-using (then simplify propagate-values solve-eqs elim-uncnstr simplify (par-or smt (then bit-blast sat))))", 1)
		}},
}

var memo sync.Map // sha -> *Result (within one run only)

type answer struct {
	status, solver, out string
	secs           float64
}

func runOne(ctx context.Context, sp solverSpec, file string, secs int, seed int) answer {
	f := file
	if sp.pre != "" || sp.rewrite != nil {
		data, _ := os.ReadFile(file)
		f = file + "." + sp.name
		txt := sp.pre + string(data)
		if sp.rewrite != nil {
			txt = sp.rewrite(dropUnusedQuantDefs(txt))
			if strings.Contains(txt, "(forall") {
				return answer{"unknown", sp.name, "skipped (quantifiers)", 0}
			}
		}
		os.WriteFile(f, []byte(txt), 0o644)
		defer os.Remove(f)
	}
	args := sp.args(f, secs)
	if seed != 0 {
		switch sp.name {
		case "z3-new", "z3":
			args = append(args[:1], append([]string{fmt.Sprintf("smt.random_seed=%d", seed), fmt.Sprintf("sat.random_seed=%d", seed)}, args[1:]...)...)
		case "cvc5":
			args = append(args[:1], append([]string{fmt.Sprintf("--seed=%d", seed)}, args[1:]...)...)
		}
	}
	// one solver process per slot: the slots are shared (file locks) by every check running on this
	// machine, so wall-clock limits stay meaningful under load
	release, ok := acquireSlot(ctx)
	if !ok {
		return answer{"timeout", sp.name, "cancelled while waiting for a solver slot", 0}
	}
	defer release()
	pctx, pcancel := context.WithTimeout(ctx, time.Duration(secs+2)*time.Second)
	defer pcancel()
	start := time.Now()
	cmd := exec.CommandContext(pctx, args[0], args[1:]...)
	var out bytes.Buffer
	cmd.Stdout = &out
	cmd.Stderr = &out
	cmd.Run()
	el := time.Since(start).Seconds()
	text := out.String()
	first := strings.TrimSpace(strings.SplitN(strings.TrimSpace(text), "\n", 2)[0])
	st := "unknown"
	switch {
	case first == "unsat":
		st = "unsat"
	case first == "sat":
		st = "sat"
	case strings.Contains(first, "timeout") || pctx.Err() != nil:
		st = "timeout"
	case strings.HasPrefix(first, "(error") || strings.Contains(text, "(error"):
		st = "error"
		if strings.HasPrefix(first, "unknown") {
			st = "unknown"
		}
	}
	return answer{st, sp.name, text, el}
}

// solve races the solvers on one query.
func solve(query string, workDir string, tag string, timeoutSecs int, seed int) *Result {
	return solveCtx(context.Background(), query, workDir, tag, timeoutSecs, seed)
}

// solveCtx is solve under a parent context: cancelling it stops the solvers (the result is then a timeout
// that is not memoised).
func solveCtx(parent context.Context, query string, workDir string, tag string, timeoutSecs int, seed int) *Result {
	sum := sha256.Sum256([]byte(query))
	key := fmt.Sprintf("%x", sum[:12])
	if r, ok := memo.Load(key); ok {
		c := *(r.(*Result))
		return &c
	}
	file := filepath.Join(workDir, sanitize(tag)+"_"+key[:8]+".smt2")
	os.WriteFile(file, []byte(query), 0o644)
	res := &Result{File: file, Size: len(query)}
	start := time.Now()
	ctx, cancel := context.WithCancel(parent)
	defer cancel()
	ch := make(chan answer, len(solvers))
	launched := 0
	launch := func(i int, secs int) {
		launched++
		go func() { ch <- runOne(ctx, solvers[i], file, secs, seed) }()
	}
	launch(0, timeoutSecs)
	stagger := time.After(4 * time.Second)
	var answers []answer
	var final *answer
	got := 0
	for final == nil && got < len(solvers) {
		select {
		case a := <-ch:
			got++
			answers = append(answers, a)
			if a.status == "sat" || a.status == "unsat" {
				final = &a
			} else if a.status == "error" && a.solver != "cvc5" {
				// malformed query (engine fault): no point in letting the other solvers chew on it
				got = len(solvers)
			} else if launched == 1 {
				// first solver gave up quickly: start the others now
				rem := timeoutSecs - int(time.Since(start).Seconds())
				if rem < 1 {
					rem = 1
				}
				launch(1, rem)
				launch(2, rem)
				launch(3, rem)
				stagger = nil
			}
		case <-stagger:
			stagger = nil
			rem := timeoutSecs - 1
			if rem < 1 {
				rem = 1
			}
			launch(1, rem)
			launch(2, rem)
			launch(3, rem)
		}
		if got >= launched && final == nil && stagger == nil {
			break
		}
	}
	cancel()
	res.Seconds = time.Since(start).Seconds()
	if final != nil {
		res.Status = final.status
		res.Solver = final.solver
		res.Output = final.out
		if final.status == "sat" {
			res.Model = parseValues(final.out)
		}
	} else {
		res.Status = "unknown"
		var sb strings.Builder
		for _, a := range answers {
			if a.status == "timeout" {
				res.Status = "timeout"
			}
			o := a.out
			if len(o) > 400 {
				o = o[:400]
			}
			sb.WriteString(fmt.Sprintf("[%s %s %.1fs] %s\n", a.solver, a.status, a.secs, strings.TrimSpace(o)))
		}
		for _, a := range answers {
			if a.status == "error" && a.solver != "cvc5" {
				// a z3 parse/sort error means the generated query is malformed: an engine fault
				res.Status = "error"
			}
		}
		res.Output = sb.String()
	}
	if res.OKFile() {
		os.Remove(file)
		res.File = ""
	}
	if parent.Err() == nil {
		c := *res
		memo.Store(key, &c)
	}
	return res
}

// OKFile: query files of definite unsat answers are not kept.
func (r *Result) OKFile() bool { return r.Status == "unsat" }

var valRe = regexp.MustCompile(`\(\s*([^\s()]+)\s+(#x[0-9a-fA-F]+|#b[01]+|true|false)\s*\)`)

func parseValues(out string) map[string]string {
	m := map[string]string{}
	for _, mm := range valRe.FindAllStringSubmatch(out, -1) {
		m[mm[1]] = mm[2]
	}
	return m
}

// dropUnusedQuantDefs removes single-line define-funs with a quantified body whose name is not used
// anywhere else in the query (the quantifier-free tactic pipeline can then be applied).
func dropUnusedQuantDefs(q string) string {
	if !strings.Contains(q, "(forall") {
		return q
	}
	lines := strings.Split(q, "\n")
	var out []string
	for _, ln := range lines {
		if strings.HasPrefix(ln, "(define-fun ") && strings.Contains(ln, "(forall") &&
			strings.Count(ln, "(") == strings.Count(ln, ")") {
			name := strings.Fields(ln)[1]
			if strings.Count(q, name) == strings.Count(ln, name) {
				continue
			}
		}
		out = append(out, ln)
	}
	return strings.Join(out, "\n")
}

// ---- solver slots ---------------------------------------------------------------------------------

var slotDir = "/verif/.work/slots"
var slotCount = runtime.NumCPU() + 2

// acquireSlot blocks until one of the machine-wide solver slots is free (or ctx is cancelled).
func acquireSlot(ctx context.Context) (func(), bool) {
	os.MkdirAll(slotDir, 0o755)
	for {
		for k := 0; k < slotCount; k++ {
			f, err := os.OpenFile(filepath.Join(slotDir, fmt.Sprintf("slot-%d", k)), os.O_CREATE|os.O_RDWR, 0o644)
			if err != nil {
				continue
			}
			if syscall.Flock(int(f.Fd()), syscall.LOCK_EX|syscall.LOCK_NB) == nil {
				return func() { syscall.Flock(int(f.Fd()), syscall.LOCK_UN); f.Close() }, true
			}
			f.Close()
		}
		select {
		case <-ctx.Done():
			return nil, false
		case <-time.After(40 * time.Millisecond):
		}
	}
}
