package main

import (
	"fmt"
	"math/big"
	"strconv"
	"strings"
)

// T is an SMT-LIB term together with its sort.
type T struct {
	S    string
	Sort string
}

const BoolSort = "Bool"

func bvSort(w int) string { return "(_ BitVec " + strconv.Itoa(w) + ")" }

// W returns the bit-vector width of the term's sort, 0 for non-bit-vector sorts.
func (t T) W() int { return sortWidth(t.Sort) }

func sortWidth(s string) int {
	if strings.HasPrefix(s, "(_ BitVec ") {
		n, _ := strconv.Atoi(strings.TrimSuffix(strings.TrimPrefix(s, "(_ BitVec "), ")"))
		return n
	}
	return 0
}

func (t T) IsBool() bool { return t.Sort == BoolSort }

var (
	tTrue  = T{"true", BoolSort}
	tFalse = T{"false", BoolSort}
)

func lit(w int, v uint64) T {
	if w%4 == 0 {
		if w <= 64 {
			if w < 64 {
				v &= (uint64(1) << uint(w)) - 1
			}
			return T{fmt.Sprintf("#x%0*x", w/4, v), bvSort(w)}
		}
	}
	if w < 64 {
		v &= (uint64(1) << uint(w)) - 1
	}
	return T{fmt.Sprintf("#b%0*b", w, v), bvSort(w)}
}

func litBig(w int, v *big.Int) T {
	m := new(big.Int).Lsh(big.NewInt(1), uint(w))
	x := new(big.Int).Mod(v, m)
	if x.Sign() < 0 {
		x.Add(x, m)
	}
	if w%4 == 0 {
		return T{fmt.Sprintf("#x%0*s", w/4, x.Text(16)), bvSort(w)}
	}
	return T{fmt.Sprintf("#b%0*s", w, x.Text(2)), bvSort(w)}
}

// constVal returns the value of a literal bit-vector term.
func constVal(t T) (uint64, bool) {
	if strings.HasPrefix(t.S, "#x") && len(t.S) <= 18 {
		v, err := strconv.ParseUint(t.S[2:], 16, 64)
		return v, err == nil
	}
	if strings.HasPrefix(t.S, "#b") && len(t.S) <= 66 {
		v, err := strconv.ParseUint(t.S[2:], 2, 64)
		return v, err == nil
	}
	return 0, false
}

func isAtom(t T) bool { return !strings.HasPrefix(t.S, "(") }

func app(op string, sort string, args ...T) T {
	var sb strings.Builder
	sb.WriteByte('(')
	sb.WriteString(op)
	for _, a := range args {
		sb.WriteByte(' ')
		sb.WriteString(a.S)
	}
	sb.WriteByte(')')
	return T{sb.String(), sort}
}

func mkAnd(ts ...T) T {
	var keep []T
	for _, t := range ts {
		if t.S == "true" {
			continue
		}
		if t.S == "false" {
			return tFalse
		}
		keep = append(keep, t)
	}
	switch len(keep) {
	case 0:
		return tTrue
	case 1:
		return keep[0]
	}
	return app("and", BoolSort, keep...)
}

func mkOr(ts ...T) T {
	var keep []T
	for _, t := range ts {
		if t.S == "false" {
			continue
		}
		if t.S == "true" {
			return tTrue
		}
		keep = append(keep, t)
	}
	switch len(keep) {
	case 0:
		return tFalse
	case 1:
		return keep[0]
	}
	return app("or", BoolSort, keep...)
}

func mkNot(t T) T {
	switch t.S {
	case "true":
		return tFalse
	case "false":
		return tTrue
	}
	if strings.HasPrefix(t.S, "(not ") {
		return T{t.S[5 : len(t.S)-1], BoolSort}
	}
	return app("not", BoolSort, t)
}

func mkImplies(a, b T) T {
	if a.S == "true" {
		return b
	}
	if a.S == "false" || b.S == "true" {
		return tTrue
	}
	return app("=>", BoolSort, a, b)
}

func mkIte(c, a, b T) T {
	if c.S == "true" {
		return a
	}
	if c.S == "false" {
		return b
	}
	if a.S == b.S {
		return a
	}
	if a.Sort == BoolSort {
		if a.S == "true" && b.S == "false" {
			return c
		}
		if a.S == "false" && b.S == "true" {
			return mkNot(c)
		}
	}
	return app("ite", a.Sort, c, a, b)
}

func mkEq(a, b T) T {
	if a.S == b.S {
		return tTrue
	}
	if a.Sort != b.Sort {
		panic(fmt.Sprintf("mkEq: sort mismatch %s:%s vs %s:%s", a.S, a.Sort, b.S, b.Sort))
	}
	if va, ok := constVal(a); ok {
		if vb, ok2 := constVal(b); ok2 {
			if va == vb {
				return tTrue
			}
			return tFalse
		}
	}
	return app("=", BoolSort, a, b)
}

// resize converts bit-vector t to width w, sign- or zero-extending according to signed.
func resize(t T, w int, signed bool) T {
	cw := t.W()
	if cw == 0 {
		panic("resize of non-bitvector " + t.S + " : " + t.Sort)
	}
	if cw == w {
		return t
	}
	if v, ok := constVal(t); ok && w <= 64 {
		if signed && cw < 64 && v&(1<<uint(cw-1)) != 0 {
			v |= ^uint64(0) << uint(cw)
		}
		return lit(w, v)
	}
	if cw > w {
		return T{fmt.Sprintf("((_ extract %d 0) %s)", w-1, t.S), bvSort(w)}
	}
	if signed {
		return T{fmt.Sprintf("((_ sign_extend %d) %s)", w-cw, t.S), bvSort(w)}
	}
	return T{fmt.Sprintf("((_ zero_extend %d) %s)", w-cw, t.S), bvSort(w)}
}

func bvbin(op string, a, b T) T {
	if a.Sort != b.Sort {
		panic(fmt.Sprintf("bvbin %s: sort mismatch %s:%s vs %s:%s", op, a.S, a.Sort, b.S, b.Sort))
	}
	if va, ok := constVal(a); ok && a.W() <= 64 {
		if vb, ok2 := constVal(b); ok2 {
			switch op {
			case "bvadd":
				return lit(a.W(), va+vb)
			case "bvsub":
				return lit(a.W(), va-vb)
			case "bvand":
				return lit(a.W(), va&vb)
			case "bvor":
				return lit(a.W(), va|vb)
			case "bvxor":
				return lit(a.W(), va^vb)
			}
		}
		if va == 0 && (op == "bvadd" || op == "bvor" || op == "bvxor") {
			return b
		}
	}
	if vb, ok := constVal(b); ok && vb == 0 && (op == "bvadd" || op == "bvsub" || op == "bvor" || op == "bvxor") {
		return a
	}
	return app(op, a.Sort, a, b)
}

func bvcmp(op string, a, b T) T {
	if a.Sort != b.Sort {
		panic(fmt.Sprintf("bvcmp %s: sort mismatch %s:%s vs %s:%s", op, a.S, a.Sort, b.S, b.Sort))
	}
	if va, ok := constVal(a); ok && a.W() <= 64 {
		if vb, ok2 := constVal(b); ok2 {
			w := uint(a.W())
			sx := func(v uint64) int64 {
				if w < 64 && v&(1<<(w-1)) != 0 {
					return int64(v | (^uint64(0) << w))
				}
				return int64(v)
			}
			var r bool
			known := true
			switch op {
			case "bvult":
				r = va < vb
			case "bvule":
				r = va <= vb
			case "bvugt":
				r = va > vb
			case "bvuge":
				r = va >= vb
			case "bvslt":
				r = sx(va) < sx(vb)
			case "bvsle":
				r = sx(va) <= sx(vb)
			case "bvsgt":
				r = sx(va) > sx(vb)
			case "bvsge":
				r = sx(va) >= sx(vb)
			default:
				known = false
			}
			if known {
				if r {
					return tTrue
				}
				return tFalse
			}
		}
	}
	return app(op, BoolSort, a, b)
}

// goShift implements Go's shift semantics: count is unsigned (or checked non-negative), and a count
// >= width yields 0 (or sign fill for arithmetic right shifts).
func goShift(op string, x, cnt T, cntSigned bool, xSigned bool) T {
	w := x.W()
	cw := cnt.W()
	var c T
	var over T // count >= w
	if cw >= w {
		over = bvcmp("bvuge", cnt, lit(cw, uint64(w)))
		c = resize(cnt, w, false)
	} else {
		c = resize(cnt, w, false)
		if uint64(w) < (uint64(1) << uint(cw)) {
			over = bvcmp("bvuge", cnt, lit(cw, uint64(w)))
		} else {
			over = tFalse
		}
	}
	if v, ok := constVal(cnt); ok {
		if v >= uint64(w) {
			over = tTrue
		} else {
			over = tFalse
		}
	}
	switch op {
	case "<<":
		return mkIte(over, lit0(w), bvbin("bvshl", x, c))
	case ">>":
		if xSigned {
			// SMT bvashr with count >= w already sign-fills
			return mkIte(over, bvbin("bvashr", x, lit(w, uint64(w-1))), bvbin("bvashr", x, c))
		}
		return mkIte(over, lit0(w), bvbin("bvlshr", x, c))
	}
	panic("goShift " + op)
}

func lit0(w int) T {
	if w <= 64 {
		return lit(w, 0)
	}
	return litBig(w, big.NewInt(0))
}

func popcount64(x T) T {
	// sum of bits, as a 64-bit value
	parts := make([]string, 0, 64)
	for i := 0; i < 64; i++ {
		parts = append(parts, fmt.Sprintf("((_ zero_extend 63) ((_ extract %d %d) %s))", i, i, x.S))
	}
	return T{"(bvadd " + strings.Join(parts, " ") + ")", bvSort(64)}
}

func tz64(x T) T {
	// trailing zeros: 64 if x == 0
	s := "#x0000000000000040"
	for i := 63; i >= 0; i-- {
		s = fmt.Sprintf("(ite (= ((_ extract %d %d) %s) #b1) #x%016x %s)", i, i, x.S, i, s)
	}
	return T{s, bvSort(64)}
}

func len64(x T) T {
	// bits.Len64: minimum number of bits to represent x; 0 for x == 0
	s := "#x0000000000000000"
	for i := 0; i <= 63; i++ {
		s = fmt.Sprintf("(ite (= ((_ extract %d %d) %s) #b1) #x%016x %s)", i, i, x.S, i+1, s)
	}
	return T{s, bvSort(64)}
}
