package main

import (
	"sort"
	"fmt"
	"go/ast"
	"go/constant"
	"go/token"
	"go/types"
	"math/big"
	"strconv"
	"strings"

	"golang.org/x/tools/go/ssa"
)

func bigInt(v int64) *big.Int { return big.NewInt(v) }

func (x *Exec) call(fr *frame, st *State, c *ssa.Call) Value {
	var args []Value
	for _, a := range c.Call.Args {
		args = append(args, x.operand(fr, st, a))
	}
	var fnv Value
	if !c.Call.IsInvoke() {
		if _, isB := c.Call.Value.(*ssa.Builtin); !isB {
			fnv = x.operand(fr, st, c.Call.Value)
		}
	}
	return x.callCommon(fr, st, &c.Call, fnv, args, c)
}

// callCommon performs a call; st is updated in place.  Returns the result value (nil if none).
func (x *Exec) callCommon(fr *frame, st *State, cc *ssa.CallCommon, fnv Value, args []Value, site ssa.Instruction) Value {
	if b, ok := cc.Value.(*ssa.Builtin); ok && !cc.IsInvoke() {
		if fr.top && x.fc != nil && x.fc.AtCall != nil {
			for _, c := range x.fc.AtCall[b.Name()] {
				g := x.evalGoalClause(fr, st, c, x.loopOpts(fr, nil))
				n := x.count(fr.name + "#atcall." + b.Name())
				x.vc.oblige(&Obligation{Name: fmt.Sprintf("%s#atcall.%s@%d", fr.name, b.Name(), n), Kind: "pre", Func: fr.name,
					Guard: st.reach, Goal: g, Src: "before " + b.Name() + ": " + c.Src, Pos: fmt.Sprintf("%s:%d", c.File, c.Line)})
			}
		}
		return x.builtin(fr, st, b, cc, args, site)
	}
	if cc.IsInvoke() {
		return x.externCall(fr, st, "invoke "+cc.Method.FullName(), cc.Signature(), args, site)
	}
	var callee *ssa.Function
	var bind []Value
	switch f := fnv.(type) {
	case Clo:
		callee = f.Fn
		bind = f.Bind
	default:
		if sf := cc.StaticCallee(); sf != nil {
			callee = sf
		}
	}
	if callee == nil {
		if fr.top && x.fc != nil && (len(x.fc.CbModifies) > 0 || len(x.fc.CbEnsures) > 0 || len(x.fc.CbRequires) > 0) {
			// a call through a function value, governed by the callback contract of the unit
			n := x.count(fr.name + "#callback")
			for i, c := range x.fc.CbRequires {
				g := x.evalGoalClause(fr, st, c, x.loopOpts(fr, nil))
				x.vc.oblige(&Obligation{Name: fmt.Sprintf("%s#callback@%d.pre%d", fr.name, n, i+1), Kind: "pre", Func: fr.name, Guard: st.reach, Goal: g, Src: c.Src})
			}
			for _, m := range x.fc.CbModifies {
				x.havocPathExpr(fr, st, m, x.loopOpts(fr, nil))
			}
			res := x.freshOpaqueOrValueSig(cc.Signature(), "callback")
			co := *x.loopOpts(fr, nil)
			co.result = res // `result` in callback-ensures is the value returned by the callback
			for _, c := range x.fc.CbEnsures {
				x.vc.assume(mkImplies(st.reach, x.evalBoolClause(fr, st, c, &co)), "callback contract")
			}
			x.vc.note("calls through function values in " + fr.name + " are governed by the unit's callback contract (assumed for the callbacks, which are verified separately)")
			return res
		}
		return x.externCall(fr, st, "dynamic call", cc.Signature(), args, site)
	}
	name := shortFuncName(callee)
	// intrinsics
	if r, ok := x.intrinsic(fr, st, name, args); ok {
		return r
	}
	if fr.top && x.fc != nil && (x.fc.AtCall != nil || x.fc.AtCallSets != nil || len(x.fc.Uses) > 0) {
		cname := callee.Name()
		if i := strings.Index(cname, "["); i > 0 {
			cname = cname[:i] // instance of a generic function: at-call conditions name the generic
		}
		nth := x.callSiteOrdinal(fr, site, cname)
		// lemma instances requested `at call NAME[@k]` (evaluated in the state before the call)
		for _, ul := range x.fc.Uses {
			if ul.At == "call "+cname || ul.At == fmt.Sprintf("call %s@%d", cname, nth) {
				x.useLemma(fr, st, ul, x.loopOpts(fr, nil))
			}
		}
		conds := append([]Clause(nil), x.fc.AtCall[cname]...)
		conds = append(conds, x.fc.AtCall[fmt.Sprintf("%s@%d", cname, nth)]...)
		// sites may also be named by a constant string argument: NAME="text" (independent of source order)
		var constKeys []string
		for _, a := range cc.Args {
			if k, isC := a.(*ssa.Const); isC && k.Value != nil && k.Value.Kind() == constant.String {
				constKeys = append(constKeys, cname+"="+strconv.Quote(constant.StringVal(k.Value)))
			}
		}
		for _, k := range constKeys {
			conds = append(conds, x.fc.AtCall[k]...)
		}
		defer func() {
			// ghost assignments attached to this call site (after its conditions were proved)
			sets := append([]GhostBind(nil), x.fc.AtCallSets[cname]...)
			sets = append(sets, x.fc.AtCallSets[fmt.Sprintf("%s@%d", cname, nth)]...)
			for _, k := range constKeys {
				sets = append(sets, x.fc.AtCallSets[k]...)
			}
			for _, gb := range sets {
				g, ok := x.ghosts[gb.Name]
				if !ok {
					bail("at-call sets: unknown ghost %s", gb.Name)
				}
				cur := x.contents(st, g)
				v := x.evalExpr(fr, st, gb.Clause.Expr, x.loopOpts(fr, nil))
				if sc, isSc := cur.(Sc); isSc {
					if u, isU := v.(Untyped); isU {
						v = x.coerceTo(u, sc.Sort, sc.Signed)
					}
					if vs, ok2 := v.(Sc); ok2 && vs.Sort != sc.Sort {
						bail("at-call sets %s: sort %s, expected %s", gb.Name, vs.Sort, sc.Sort)
					}
				}
				st.mem[g] = v
			}
		}()
		for _, c := range conds {
			g := x.evalGoalClause(fr, st, c, x.loopOpts(fr, nil))
			n := nth
			x.vc.oblige(&Obligation{Name: fmt.Sprintf("%s#atcall.%s@%d", fr.name, cname, n), Kind: "pre", Func: fr.name,
				Guard: st.reach, Goal: g, Src: "before calling " + cname + ": " + c.Src, Pos: fmt.Sprintf("%s:%d", c.File, c.Line)})
			// once proved, the condition is a fact on this path (a cut for the later obligations)
			x.vc.assume(mkImplies(st.reach, x.evalBoolClause(fr, st, c, x.loopOpts(fr, nil))), "at-call condition (proved above) before "+cname)
		}
	}
	if x.fc != nil && !x.forceInline {
		for _, v := range x.fc.Views {
			if vfc := x.prog.contracts.Funcs[name+"@"+v]; vfc != nil {
				if vfc.Inline {
					// the view says: execute the body in place (exact effect, nothing assumed)
					out, res, ok := x.runFunc(callee, args, bind, *st, false)
					if !ok {
						st.reach = tFalse
						return x.freshOpaqueOrValueSig(cc.Signature(), "noreturn")
					}
					*st = out
					return res
				}
				x.vc.note("call to " + name + " uses its `" + v + "` view (abstract contract): " + vfc.Trusted)
				return x.applyContract(fr, st, callee, vfc, args, site)
			}
		}
	}
	if fc := x.prog.contracts.Funcs[name]; fc != nil && fc.HasSpec() && (!x.forceInline || fc.Abstract) {
		if fc.CallersInline {
			return x.inlineWithFacts(fr, st, callee, fc, args, bind)
		}
		return x.applyContract(fr, st, callee, fc, args, site)
	}
	if fc := x.prog.contracts.Externs[name]; fc != nil && !(x.forceInline && len(callee.Blocks) > 0) {
		return x.applyContract(fr, st, callee, fc, args, site)
	}
	if len(callee.Blocks) == 0 || !x.prog.inModule(callee) {
		return x.externCall(fr, st, name, cc.Signature(), args, site)
	}
	// inline
	out, res, ok := x.runFunc(callee, args, bind, *st, false)
	if !ok {
		// callee never returns
		st.reach = tFalse
		return x.freshOpaqueOrValueSig(cc.Signature(), "noreturn")
	}
	*st = out
	return res
}

func (x *Exec) freshOpaqueOrValueSig(sig *types.Signature, hint string) Value {
	switch sig.Results().Len() {
	case 0:
		return nil
	case 1:
		return x.freshValue(sig.Results().At(0).Type(), hint)
	}
	return x.freshOpaqueOrValue(sig.Results(), hint)
}

// externCall models a call whose body is not verified: results are unconstrained; the call is
// assumed not to touch modelled memory unless pointers/slices to it are passed, in which case the
// pointees are havocked.
func (x *Exec) externCall(fr *frame, st *State, name string, sig *types.Signature, args []Value, site ssa.Instruction) Value {
	if !x.prog.allowExtern(name) {
		bail("%s: call to %s has no contract and cannot be inlined (add an `extern` contract)", fr.name, name)
	}
	x.vc.note("external call " + name + ": result unconstrained; writes only through pointer/slice arguments; assumed not to panic")
	for _, a := range args {
		x.havocReachable(st, a, name)
	}
	return x.freshOpaqueOrValueSig(sig, "ext_"+sanitize(name))
}

func (x *Exec) havocReachable(st *State, a Value, why string) {
	switch v := a.(type) {
	case Ptr:
		if v.Obj != nil && !v.Nil {
			cur := x.load(st, v)
			x.store(st, v, x.havocLike(cur, "hv"))
		}
	case Slc:
		if v.Obj != nil && !v.Nil {
			st.mem[v.Obj] = x.havocLike(x.contents(st, v.Obj), "hv")
		}
	case Opq:
		if v.Inner != nil {
			x.havocReachable(st, v.Inner, why)
		}
	}
}

func (x *Exec) intrinsic(fr *frame, st *State, name string, args []Value) (Value, bool) {
	one := func() T { return x.vc.def("a", args[0].(Sc).T) }
	switch name {
	case "math/bits.TrailingZeros64":
		return Sc{T: T{"(tz64 " + one().S + ")", bvSort(64)}, Signed: true}, true
	case "math/bits.OnesCount64":
		if x.isOpaque("popcnt64") {
			// the count is abstracted to an uninterpreted value in [0, 64] (sound: only its range is used)
			if x.ufs == nil {
				x.ufs = map[string]ufInfo{}
			}
			if _, ok := x.ufs["uf.popcnt64"]; !ok {
				x.vc.decls = append(x.vc.decls, "(declare-fun uf.popcnt64 ((_ BitVec 64)) (_ BitVec 64))")
				x.ufs["uf.popcnt64"] = ufInfo{bvSort(64), true, 1}
			}
			t := x.vc.def("pc", T{"(uf.popcnt64 " + one().S + ")", bvSort(64)})
			x.vc.assume(mkAnd(bvcmp("bvsle", lit(64, 0), t), bvcmp("bvsle", t, lit(64, 64))), "range of a population count")
			return Sc{T: t, Signed: true}, true
		}
		return Sc{T: T{"(popcnt64 " + one().S + ")", bvSort(64)}, Signed: true}, true
	case "math/bits.Len64":
		return Sc{T: T{"(len64 " + one().S + ")", bvSort(64)}, Signed: true}, true
	}
	return nil, false
}

func (x *Exec) builtin(fr *frame, st *State, b *ssa.Builtin, cc *ssa.CallCommon, args []Value, site ssa.Instruction) Value {
	switch b.Name() {
	case "len", "cap":
		switch a := args[0].(type) {
		case Slc:
			if b.Name() == "len" {
				return Sc{T: a.Len, Signed: true}
			}
			return Sc{T: a.Cap, Signed: true}
		case Opq:
			if a.Str != nil {
				return Sc{T: lit(64, uint64(len(*a.Str))), Signed: true}
			}
			n := x.vc.fresh("len", bvSort(64))
			x.vc.assume(mkAnd(bvcmp("bvsle", lit(64, 0), n), bvcmp("bvsle", n, lit(64, 1<<40))), "len of opaque")
			return Sc{T: n, Signed: true}
		case Agg:
			return Sc{T: lit(64, uint64(len(a.Elems))), Signed: true}
		case Ptr:
			arr := cc.Args[0].Type().Underlying().(*types.Pointer).Elem().Underlying().(*types.Array)
			return Sc{T: lit(64, uint64(arr.Len())), Signed: true}
		}
		bail("%s: len/cap of %T", fr.name, args[0])
	case "append":
		s, ok := args[0].(Slc)
		if !ok {
			bail("%s: append to %T", fr.name, args[0])
		}
		add, ok := args[1].(Slc)
		if !ok {
			bail("%s: append of %T", fr.name, args[1])
		}
		n, isConst := constVal(add.Len)
		if !isConst || n > 8 {
			bail("%s: append of a slice of non-constant length", fr.name)
		}
		x.vc.note("append is modelled as in-place growth of the backing array (no second live view of it exists)")
		if s.Nil {
			et := cc.Args[0].Type().Underlying().(*types.Slice).Elem()
			o := x.newObject("append", "backing", nil)
			o.ElemTyp = et
			st.mem[o] = Big{Elem: x.zeroDepth(et, 1), Typ: et, N: -1}
			s = Slc{Obj: o, Off: lit(64, 0), Len: lit(64, 0), Cap: lit(64, 0)}
		}
		for k := uint64(0); k < n; k++ {
			src := x.load(st, Ptr{Obj: add.Obj, Path: append(append([]Sel(nil), add.Path...), Sel{Field: -1, Idx: bvbin("bvadd", add.Off, lit(64, k))})})
			dst := Ptr{Obj: s.Obj, Path: append(append([]Sel(nil), s.Path...), Sel{Field: -1, Idx: bvbin("bvadd", bvbin("bvadd", s.Off, s.Len), lit(64, k))})}
			x.store(st, dst, src)
		}
		nl := x.vc.def("len", bvbin("bvadd", s.Len, lit(64, n)))
		nc := x.vc.fresh("cap", bvSort(64))
		x.vc.assume(mkAnd(bvcmp("bvsle", nl, nc), bvcmp("bvsle", s.Cap, nc)), "cap after append")
		return Slc{Obj: s.Obj, Path: s.Path, Off: s.Off, Len: nl, Cap: nc}
	case "copy":
		dst, ok1 := args[0].(Slc)
		src, ok2 := args[1].(Slc)
		if !ok1 || !ok2 {
			bail("%s: copy of %T,%T", fr.name, args[0], args[1])
		}
		n := x.vc.def("n", mkIte(bvcmp("bvslt", dst.Len, src.Len), dst.Len, src.Len))
		if dst.Nil || src.Nil {
			return Sc{T: lit(64, 0), Signed: true}
		}
		// bulk copy: new contents are old contents except indices in [dst.Off, dst.Off+n)
		srcArr := x.readPath(x.contents(st, src.Obj), src.Path)
		dstArr := x.readPath(x.contents(st, dst.Obj), dst.Path)
		sb, okS := srcArr.(Big)
		db, okD := dstArr.(Big)
		if !okS || !okD {
			bail("%s: copy between small arrays is not supported", fr.name)
		}
		// copied(j) = ite(dst.Off <= j < dst.Off+n, src[j - dst.Off + src.Off], dst[j])
		res, ok := zipLeaves(db.Elem, sb.Elem, func(d, s Sc) Sc {
			na := x.vc.fresh("cp", d.Sort)
			j := "j"
			es := arrayElemSort(d.Sort)
			_ = es
			body := fmt.Sprintf("(forall ((%s (_ BitVec 64))) (= (select %s %s) (ite (and (bvule %s %s) (bvult %s (bvadd %s %s))) (select %s (bvadd (bvsub %s %s) %s)) (select %s %s))))",
				j, na.S, j, dst.Off.S, j, j, dst.Off.S, n.S, s.S, j, dst.Off.S, src.Off.S, d.S, j)
			x.vc.assume(T{body, BoolSort}, "copy")
			return Sc{T: na, Signed: d.Signed}
		})
		if !ok {
			bail("%s: copy shape mismatch", fr.name)
		}
		st.mem[dst.Obj] = x.writePath(x.contents(st, dst.Obj), dst.Path, Big{res, db.Typ, db.N})
		return Sc{T: n, Signed: true}
	case "min", "max":
		acc := args[0].(Sc)
		for _, a := range args[1:] {
			b2 := a.(Sc)
			var c T
			if b.Name() == "min" {
				c = bvcmp(pick(acc.Signed, "bvslt", "bvult"), b2.T, acc.T)
			} else {
				c = bvcmp(pick(acc.Signed, "bvsgt", "bvugt"), b2.T, acc.T)
			}
			acc = Sc{T: mkIte(c, b2.T, acc.T), Signed: acc.Signed}
		}
		return acc
	case "print", "println":
		return nil
	case "ssa:wrapnilchk":
		return args[0]
	}
	bail("%s: unsupported builtin %s", fr.name, b.Name())
	return nil
}

// ---------------------------------------------------------------------------------------------
// contract application at a call site

func (x *Exec) applyContract(fr *frame, st *State, callee *ssa.Function, fc *FuncContract, args []Value, site ssa.Instruction) Value {
	n := x.count(fr.name + "#call." + callee.Name())
	siteName := fmt.Sprintf("%s#call.%s@%d", fr.name, callee.Name(), n)
	// bind parameter names
	names := map[string]Value{}
	for i, p := range callee.Params {
		names[p.Name()] = args[i]
	}
	cst := st.clone()
	cst.names = names
	pre := cst.clone()
	cfr := &frame{fn: callee, fc: fc, name: shortFuncName(callee)}
	opts := &evalOpts{old: &pre, ghost: map[string]Value{}}
	for _, g := range fc.Ghosts {
		opts.ghost[g.Name] = x.evalExpr(cfr, &pre, g.Expr, opts)
	}
	for i, r := range fc.Requires {
		g := x.evalGoalClause(cfr, &pre, r, opts)
		x.vc.oblige(&Obligation{Name: fmt.Sprintf("%s.pre%d", siteName, i+1), Kind: "pre", Func: fr.name,
			Guard: st.reach, Goal: g, Src: r.Src, Pos: fmt.Sprintf("%s:%d", r.File, r.Line)})
		x.vc.assume(mkImplies(st.reach, x.evalBoolClause(cfr, &pre, r, opts)), "call precondition established")
	}
	// havoc modifies
	post := cst.clone()
	for _, m := range fc.Modifies {
		x.havocPathExpr(cfr, &post, m, opts)
	}
	// result
	var res Value
	sig := callee.Signature
	switch sig.Results().Len() {
	case 0:
	case 1:
		res = x.freshResult(sig.Results().At(0).Type(), "r_"+callee.Name())
	default:
		tp := Tup{}
		for k := 0; k < sig.Results().Len(); k++ {
			tp.Elems = append(tp.Elems, x.freshResult(sig.Results().At(k).Type(), fmt.Sprintf("r%d_%s", k, callee.Name())))
		}
		res = tp
	}
	opts.result = res
	for _, e := range fc.Ensures {
		g := x.evalBoolClause(cfr, &post, e, opts)
		x.vc.assume(mkImplies(st.reach, g), "postcondition of "+callee.Name())
	}
	if fr.top && x.fc != nil && len(x.fc.Instances) > 0 {
		// ghost-parametric postconditions of the callee, instantiated as the caller's contract asks;
		// the instance terms are evaluated in the caller's state before the call
		for _, gi := range x.fc.Instances {
			for _, row := range gi.Rows {
				var o2 *evalOpts
				for _, e := range fc.Ensures {
					if !mentionsAny(x, e.Expr, gi.Ghosts) {
						continue
					}
					if o2 == nil {
						co := x.loopOpts(fr, nil)
						io := x.instanceOpts(fr, st, gi, row, co, cfr, &pre)
						if io == nil {
							break
						}
						c2 := *opts
						c2.ghost = map[string]Value{}
						for k, v := range opts.ghost {
							c2.ghost[k] = v
						}
						for _, g := range gi.Ghosts {
							c2.ghost[g] = io.ghost[g]
						}
						o2 = &c2
					}
					func() {
						defer recoverStructure()
						g := x.evalBoolClause(cfr, &post, e, o2)
						x.vc.assume(mkImplies(st.reach, g), "postcondition of "+callee.Name()+" instance "+strings.Join(gi.Ghosts, ",")+" := "+row[0].Src)
					}()
				}
			}
		}
	}
	st.mem = post.mem
	return res
}

// freshResult creates a symbolic result that is not an input of the unit.
func (x *Exec) freshResult(t types.Type, hint string) Value {
	save := x.vc.Inputs
	v := x.freshValue(t, hint)
	if p, ok := v.(Ptr); ok && !p.Nil {
		// a returned pointer may be nil unless the contract says otherwise
		c := x.vc.fresh(hint+".isnil", BoolSort)
		p.May = &c
		v = p
	}
	x.vc.Inputs = save
	return v
}

// havocPathExpr havocs the location denoted by a modifies-clause expression: `p.f`, `p.f[i]`,
// `p.*`, a ghost variable, a global.
func (x *Exec) havocPathExpr(fr *frame, st *State, m Clause, opts *evalOpts) {
	src := strings.TrimSpace(m.Src)
	if strings.HasSuffix(src, ".*") {
		e, err := parseExprSrc(strings.TrimSuffix(src, ".*"))
		if err != nil {
			bail("%v", err)
		}
		v := x.evalExpr(fr, st, e, opts)
		if _, isAgg := v.(Agg); isAgg {
			// a struct-valued variable or field: havoc it in place
			v = x.evalLValue(fr, st, e, opts)
		}
		x.havocDeep(st, v)
		return
	}
	lv := x.evalLValue(fr, st, m.Expr, opts)
	cur := x.load(st, lv)
	nv := x.havocLike(cur, "mod")
	x.store(st, lv, nv)
	if s, ok := nv.(Slc); ok && s.Obj != nil {
		st.mem[s.Obj] = x.havocLike(x.contents(st, s.Obj), "mod")
	}
}

// havocDeep havocs the pointee of v including the backing stores of slices directly inside it.
func (x *Exec) havocDeep(st *State, v Value) {
	switch p := v.(type) {
	case Ptr:
		if p.Obj == nil || p.Nil {
			return
		}
		cur := x.load(st, p)
		nv := x.havocLike(cur, "mod")
		x.store(st, p, nv)
		x.havocSlicesIn(st, nv)
	case Slc:
		if p.Obj != nil {
			st.mem[p.Obj] = x.havocLike(x.contents(st, p.Obj), "mod")
		}
	default:
		bail("modifies X.*: X is %T, expected pointer or slice", v)
	}
}

func (x *Exec) havocSlicesIn(st *State, v Value) {
	switch a := v.(type) {
	case Agg:
		for _, e := range a.Elems {
			x.havocSlicesIn(st, e)
		}
	case Slc:
		if a.Obj != nil {
			st.mem[a.Obj] = x.havocLike(x.contents(st, a.Obj), "mod")
		}
	}
}

// callWrites adds to roots the objects a call inside a loop may write (used for loop havoc).
func (x *Exec) callWrites(fr *frame, st *State, ci ssa.CallInstruction, roots map[*Object]bool, unknown *bool) {
	cc := ci.Common()
	if _, isB := cc.Value.(*ssa.Builtin); isB {
		name := cc.Value.Name()
		if name == "append" || name == "copy" {
			if r := x.staticRoot(fr, st, cc.Args[0]); r != nil {
				roots[r] = true
			} else {
				*unknown = true
			}
		}
		return
	}
	callee := cc.StaticCallee()
	if callee == nil {
		*unknown = true
		return
	}
	name := shortFuncName(callee)
	if strings.HasPrefix(name, "math/bits.") {
		return
	}
	fc := x.prog.contracts.Funcs[name]
	if fc == nil || !fc.HasSpec() {
		fc = x.prog.contracts.Externs[name]
	}
	if fc != nil && fc.HasSpec() {
		if len(fc.Modifies) == 0 {
			return
		}
		// modifies clauses are rooted at parameters (or ghosts/globals)
		for _, m := range fc.Modifies {
			root := rootIdent(m.Expr)
			if root == "" {
				root = strings.SplitN(strings.TrimSuffix(m.Src, ".*"), ".", 2)[0]
			}
			found := false
			for i, p := range callee.Params {
				if p.Name() == root {
					if r := x.staticRoot(fr, st, cc.Args[i]); r != nil {
						roots[r] = true
						// slices inside: also their backing stores
						x.addSliceBackings(st, r, roots)
						found = true
					}
				}
			}
			if g, ok := x.ghosts[root]; ok {
				roots[g] = true
				found = true
			}
			if !found {
				*unknown = true
			}
		}
		return
	}
	if x.prog.writeFree(callee) {
		return
	}
	// inlined callee that writes: conservatively havoc the roots of pointer arguments
	for _, a := range cc.Args {
		switch a.Type().Underlying().(type) {
		case *types.Pointer, *types.Slice:
			if r := x.staticRoot(fr, st, a); r != nil {
				roots[r] = true
				x.addSliceBackings(st, r, roots)
			} else {
				*unknown = true
			}
		}
	}
	if x.prog.writesGlobals(callee) {
		*unknown = true
	}
}

func (x *Exec) addSliceBackings(st *State, o *Object, roots map[*Object]bool) {
	var walk func(v Value)
	walk = func(v Value) {
		switch a := v.(type) {
		case Agg:
			for _, e := range a.Elems {
				walk(e)
			}
		case Slc:
			if a.Obj != nil {
				roots[a.Obj] = true
			}
		}
	}
	walk(x.contents(st, o))
}

// inlineWithFacts checks the callee's preconditions, executes its body in place (exact post-state,
// no havoc) and then assumes the selected postconditions, which the callee's own verification
// establishes for exactly this post-state.
func (x *Exec) inlineWithFacts(fr *frame, st *State, callee *ssa.Function, fc *FuncContract, args []Value, bind []Value) Value {
	n := x.count(fr.name + "#call." + callee.Name())
	siteName := fmt.Sprintf("%s#call.%s@%d", fr.name, callee.Name(), n)
	names := map[string]Value{}
	for i, p := range callee.Params {
		names[p.Name()] = args[i]
	}
	pre := st.clone()
	pre.names = names
	cfr := &frame{fn: callee, fc: fc, name: shortFuncName(callee)}
	opts := &evalOpts{old: &pre, ghost: map[string]Value{}}
	for _, g := range fc.Ghosts {
		opts.ghost[g.Name] = x.evalExpr(cfr, &pre, g.Expr, opts)
	}
	for i, r := range fc.Requires {
		g := x.evalGoalClause(cfr, &pre, r, opts)
		x.vc.oblige(&Obligation{Name: fmt.Sprintf("%s.pre%d", siteName, i+1), Kind: "pre", Func: fr.name,
			Guard: st.reach, Goal: g, Src: r.Src, Pos: fmt.Sprintf("%s:%d", r.File, r.Line)})
		x.vc.assume(mkImplies(st.reach, x.evalBoolClause(cfr, &pre, r, opts)), "call precondition established")
	}
	saveNP := x.nopanic
	x.nopanic = false // the callee's own unit proves its safety under the preconditions just checked
	out, res, ok := x.runFunc(callee, args, bind, *st, false)
	x.nopanic = saveNP
	if !ok {
		st.reach = tFalse
		return x.freshOpaqueOrValueSig(callee.Signature, "noreturn")
	}
	*st = out
	callerNames := st.names
	st.names = names
	defer func() { st.names = callerNames }()
	post := st // facts are evaluated in the caller's state itself (memoised opaque applications persist)
	opts.result = res
	for _, e := range fc.Ensures {
		use := false
		for _, l := range fc.InlineFacts {
			if l == e.Label {
				use = true
			}
		}
		if !use {
			continue
		}
		g := x.evalBoolClause(cfr, post, e, opts)
		x.vc.assume(mkImplies(st.reach, g), "proved postcondition ["+e.Label+"] of "+callee.Name())
		// a fact of the shape  opaqueMacro(args) == E : from here on the memoised value of the opaque
		// application is E itself (equal on every path through this call), which lets the solvers'
		// rewriters cancel terms instead of reasoning about an uninterpreted atom
		if be, ok := e.Expr.(*ast.BinaryExpr); ok && be.Op == token.EQL {
			if ce, ok := be.X.(*ast.CallExpr); ok {
				if id, ok := ce.Fun.(*ast.Ident); ok && x.isOpaque(id.Name) {
					if tobj := x.trackObj["uf."+id.Name]; tobj != nil {
						if cur, ok := st.mem[tobj].(Tup); ok {
							rhs := x.evalExpr(cfr, post, be.Y, opts)
							if rs, ok := rhs.(Sc); ok {
								elems := append([]Value{Sc{T: x.vc.def("zt", rs.T), Signed: rs.Signed}}, cur.Elems[1:]...)
								st.mem[tobj] = Tup{Elems: elems}
							}
						}
					}
				}
			}
		}
	}
	return res
}

// callSiteOrdinal numbers the static call sites of a callee inside the function under verification in
// source order (1-based), independent of the order in which the symbolic execution reaches them.
func (x *Exec) callSiteOrdinal(fr *frame, site ssa.Instruction, cname string) int {
	if site == nil || fr.fn == nil {
		return x.count(fr.name + "#atcallsite." + cname)
	}
	type cs struct {
		in  ssa.Instruction
		pos token.Pos
	}
	var sites []cs
	for _, b := range fr.fn.Blocks {
		for _, in := range b.Instrs {
			ci, ok := in.(ssa.CallInstruction)
			if !ok {
				continue
			}
			var n string
			if c := ci.Common().StaticCallee(); c != nil {
				n = c.Name()
			} else if bi, isB := ci.Common().Value.(*ssa.Builtin); isB {
				n = bi.Name()
			}
			if i := strings.Index(n, "["); i > 0 {
				n = n[:i]
			}
			if n == cname {
				sites = append(sites, cs{in, in.Pos()})
			}
		}
	}
	sort.SliceStable(sites, func(i, j int) bool { return sites[i].pos < sites[j].pos })
	for i, s := range sites {
		if s.in == site {
			return i + 1
		}
	}
	return x.count(fr.name + "#atcallsite." + cname)
}
