package main

import (
	"fmt"
	"go/types"
	"strings"

	"golang.org/x/tools/go/ssa"
)

// Value is a symbolic Go value.
type Value interface{}

// Sc is a scalar: bool or fixed-width integer (or a value of an opaque SMT sort such as Pos).
type Sc struct {
	T
	Signed bool
}

// Agg is a struct (one element per field) or a small array (one element per index).
type Agg struct {
	Elems []Value
	Typ   types.Type
}

// Big is a large array: Elem has the shape of one element, but every scalar leaf is an SMT array
// indexed by a 64-bit vector (nested Bigs nest the arrays).
type Big struct {
	Elem Value // leaves: Sc whose Sort is (Array (_ BitVec 64) leafSort)
	Typ  types.Type
	N    int64 // static length, -1 for slice backing stores
}

// Sel is one step of an address path.
type Sel struct {
	Field int // >= 0: struct field; -1: index
	Idx   T   // 64-bit index term (when Field == -1)
}

// Ptr is a pointer value: a static object plus a path of field / index selections.
type Ptr struct {
	Obj  *Object
	Path []Sel
	Nil  bool // definitely nil (Obj == nil)
	May  *T   // non-nil pointer shape that is nil when this condition holds (nil: never)
}

func (p Ptr) nilCond() T {
	if p.Nil {
		return tTrue
	}
	if p.May != nil {
		return *p.May
	}
	return tFalse
}

// Slc is a slice value: a view of the (big or small) array at Obj/Path.
type Slc struct {
	Obj           *Object
	Path          []Sel
	Off, Len, Cap T // 64-bit
	Nil           bool
}

// Tup is the result of a multi-value call.
type Tup struct{ Elems []Value }

// Opq is a value the translation does not interpret (interfaces, channels, strings, maps, funcs).
type Opq struct {
	Typ   types.Type
	Inner Value // for MakeInterface: the wrapped value
	Tag   string
	Str   *string // constant string value when known
	NilC  *T      // for interface / error values: the condition under which the value is nil
}

// Clo is a closure value.
type Clo struct {
	Fn   *ssa.Function
	Bind []Value
}

// Untyped is an untyped constant in a contract expression.
type Untyped struct {
	V interface{} // *big.Int or bool
}

// Object is a memory object.
type Object struct {
	ID   int
	Name string
	Typ  types.Type // type of the contents
	Kind string     // param, alloc, global, ghost, backing, fresh
	// Elem type for backing stores of slices (Typ is then nil and contents are a Big of Elem)
	ElemTyp types.Type
	Global  *ssa.Global
	Lazy    bool // contents are created on first use (parameters' pointees, globals, ghosts)
}

func (o *Object) String() string { return fmt.Sprintf("%s#%d", o.Name, o.ID) }

// ---------------------------------------------------------------------------------------------
// type shapes

const smallArrayLimit = 64

func leafCount(t types.Type) int64 {
	switch u := t.Underlying().(type) {
	case *types.Struct:
		var n int64
		for i := 0; i < u.NumFields(); i++ {
			n += leafCount(u.Field(i).Type())
		}
		return n
	case *types.Array:
		return u.Len() * leafCount(u.Elem())
	}
	return 1
}

func isBigArray(t *types.Array) bool {
	return t.Len()*leafCount(t.Elem()) > smallArrayLimit || t.Len() > smallArrayLimit
}

func basicInfo(t types.Type) (w int, signed bool, isBool bool, ok bool) {
	b, isB := t.Underlying().(*types.Basic)
	if !isB {
		return 0, false, false, false
	}
	switch b.Kind() {
	case types.Bool, types.UntypedBool:
		return 0, false, true, true
	case types.Int8:
		return 8, true, false, true
	case types.Int16:
		return 16, true, false, true
	case types.Int32, types.UntypedRune:
		return 32, true, false, true
	case types.Int64, types.Int, types.UntypedInt:
		return 64, true, false, true
	case types.Uint8:
		return 8, false, false, true
	case types.Uint16:
		return 16, false, false, true
	case types.Uint32:
		return 32, false, false, true
	case types.Uint64, types.Uint, types.Uintptr:
		return 64, false, false, true
	}
	return 0, false, false, false
}

func scalarSort(t types.Type) (string, bool, bool) {
	w, signed, isBool, ok := basicInfo(t)
	if !ok {
		return "", false, false
	}
	if isBool {
		return BoolSort, false, true
	}
	return bvSort(w), signed, true
}

// ---------------------------------------------------------------------------------------------
// generic traversal helpers

// mapLeaves applies f to every scalar leaf of v (structure preserved).
func mapLeaves(v Value, f func(Sc) Sc) Value {
	switch x := v.(type) {
	case Sc:
		return f(x)
	case Agg:
		out := make([]Value, len(x.Elems))
		for i, e := range x.Elems {
			out[i] = mapLeaves(e, f)
		}
		return Agg{out, x.Typ}
	case Big:
		return Big{mapLeaves(x.Elem, f), x.Typ, x.N}
	case Tup:
		out := make([]Value, len(x.Elems))
		for i, e := range x.Elems {
			out[i] = mapLeaves(e, f)
		}
		return Tup{out}
	}
	return v
}

// mergingValues is set while control-flow merges are computed (as opposed to equality checks).
var mergingValues bool

// zipLeaves combines two values of the same shape leafwise.  ok=false if shapes differ.
func zipLeaves(a, b Value, f func(x, y Sc) Sc) (Value, bool) {
	switch x := a.(type) {
	case Sc:
		y, ok := b.(Sc)
		if !ok || x.Sort != y.Sort {
			return nil, false
		}
		return f(x, y), true
	case Agg:
		y, ok := b.(Agg)
		if !ok || len(x.Elems) != len(y.Elems) {
			return nil, false
		}
		out := make([]Value, len(x.Elems))
		for i := range x.Elems {
			r, ok := zipLeaves(x.Elems[i], y.Elems[i], f)
			if !ok {
				return nil, false
			}
			out[i] = r
		}
		return Agg{out, x.Typ}, true
	case Big:
		y, ok := b.(Big)
		if !ok {
			return nil, false
		}
		r, ok := zipLeaves(x.Elem, y.Elem, f)
		if !ok {
			return nil, false
		}
		return Big{r, x.Typ, x.N}, true
	case Tup:
		y, ok := b.(Tup)
		if !ok || len(x.Elems) != len(y.Elems) {
			return nil, false
		}
		out := make([]Value, len(x.Elems))
		for i := range x.Elems {
			r, ok := zipLeaves(x.Elems[i], y.Elems[i], f)
			if !ok {
				return nil, false
			}
			out[i] = r
		}
		return Tup{out}, true
	case Ptr:
		y, ok := b.(Ptr)
		if !ok {
			if o, isO := b.(Opq); isO && mergingValues {
				return o, true
			}
			return nil, false
		}
		if x.Nil && y.Nil {
			return x, true
		}
		if x.Nil != y.Nil {
			// one side definitely nil: keep the other's shape, combine the nil conditions
			z := y
			if y.Nil {
				z = x
			}
			c := f(Sc{T: x.nilCond()}, Sc{T: y.nilCond()}).T
			z.Nil = false
			z.May = &c
			return z, true
		}
		if x.Obj != y.Obj || len(x.Path) != len(y.Path) {
			if mergingValues {
				// pointers to different objects cannot be merged into one symbolic pointer: the result is
				// a placeholder that may be passed around but not dereferenced
				return Opq{Tag: "unmergeable pointer"}, true
			}
			return nil, false
		}
		path := make([]Sel, len(x.Path))
		for i := range x.Path {
			if x.Path[i].Field != y.Path[i].Field {
				return nil, false
			}
			path[i] = x.Path[i]
			if x.Path[i].Field < 0 {
				r := f(Sc{T: x.Path[i].Idx}, Sc{T: y.Path[i].Idx})
				path[i].Idx = r.T
			}
		}
		out := Ptr{Obj: x.Obj, Path: path}
		if x.May != nil || y.May != nil {
			c := f(Sc{T: x.nilCond()}, Sc{T: y.nilCond()}).T
			out.May = &c
		}
		return out, true
	case Slc:
		y, ok := b.(Slc)
		if !ok {
			return nil, false
		}
		if x.Nil && y.Nil {
			return x, true
		}
		if x.Nil != y.Nil && (x.Len.S == lit(64, 0).S && y.Len.S == lit(64, 0).S) {
			// nil and empty slices are interchangeable for everything the subset can observe
			z := x
			if x.Nil {
				z = y
			}
			z.Cap = f(Sc{T: x.Cap}, Sc{T: y.Cap}).T
			return z, true
		}
		if x.Nil != y.Nil {
			// nil merged with a non-nil slice: the non-nil shape with zero length/capacity on the nil side
			// (a nil slice is an empty slice for everything but comparison with nil)
			z, n := x, y
			if x.Nil {
				z, n = y, x
			}
			_ = n
			zero := Sc{T: lit(64, 0)}
			if x.Nil {
				return Slc{Obj: z.Obj, Path: z.Path, Off: z.Off, Len: f(zero, Sc{T: z.Len}).T, Cap: f(zero, Sc{T: z.Cap}).T}, true
			}
			return Slc{Obj: z.Obj, Path: z.Path, Off: z.Off, Len: f(Sc{T: z.Len}, zero).T, Cap: f(Sc{T: z.Cap}, zero).T}, true
		}
		if !x.Nil && !y.Nil && x.Obj != y.Obj && x.Len.S == lit(64, 0).S && y.Len.S == lit(64, 0).S {
			// two empty slices over different backing arrays: no element is observable; keep one
			z := x
			z.Cap = f(Sc{T: x.Cap}, Sc{T: y.Cap}).T
			return z, true
		}
		if x.Nil != y.Nil || x.Obj != y.Obj || len(x.Path) != len(y.Path) {
			return nil, false
		}
		path := make([]Sel, len(x.Path))
		for i := range x.Path {
			if x.Path[i].Field != y.Path[i].Field {
				return nil, false
			}
			path[i] = x.Path[i]
			if x.Path[i].Field < 0 {
				path[i].Idx = f(Sc{T: x.Path[i].Idx}, Sc{T: y.Path[i].Idx}).T
			}
		}
		return Slc{Obj: x.Obj, Path: path,
			Off: f(Sc{T: x.Off}, Sc{T: y.Off}).T,
			Len: f(Sc{T: x.Len}, Sc{T: y.Len}).T,
			Cap: f(Sc{T: x.Cap}, Sc{T: y.Cap}).T}, true
	case Opq:
		// opaque values merge to the first (their identity is not modelled); nil-ness is merged
		if y, ok := b.(Opq); ok && (x.NilC != nil || y.NilC != nil) {
			xc, yc := tFalse, tFalse
			if x.NilC != nil {
				xc = *x.NilC
			}
			if y.NilC != nil {
				yc = *y.NilC
			}
			c := f(Sc{T: xc}, Sc{T: yc}).T
			z := x
			z.NilC = &c
			return z, true
		}
		return x, true
	case Clo:
		y, ok := b.(Clo)
		if !ok || x.Fn != y.Fn || len(x.Bind) != len(y.Bind) {
			return nil, false
		}
		out := make([]Value, len(x.Bind))
		for i := range x.Bind {
			r, ok := zipLeaves(x.Bind[i], y.Bind[i], f)
			if !ok {
				return nil, false
			}
			out[i] = r
		}
		return Clo{x.Fn, out}, true
	case nil:
		return nil, b == nil
	}
	return nil, false
}

func sameValue(a, b Value) bool {
	same := true
	_, ok := zipLeaves(a, b, func(x, y Sc) Sc {
		if x.S != y.S {
			same = false
		}
		return x
	})
	return ok && same
}

// leaves lists scalar leaves with a readable path.
func leaves(v Value, prefix string, f func(path string, s Sc)) {
	switch x := v.(type) {
	case Sc:
		f(prefix, x)
	case Agg:
		st, isStruct := x.Typ.Underlying().(*types.Struct)
		for i, e := range x.Elems {
			if isStruct {
				leaves(e, prefix+"."+st.Field(i).Name(), f)
			} else {
				leaves(e, fmt.Sprintf("%s[%d]", prefix, i), f)
			}
		}
	case Big:
		leaves(x.Elem, prefix+"[*]", f)
	case Tup:
		for i, e := range x.Elems {
			leaves(e, fmt.Sprintf("%s#%d", prefix, i), f)
		}
	case Slc:
		f(prefix+".off", Sc{T: x.Off})
		f(prefix+".len", Sc{T: x.Len})
		f(prefix+".cap", Sc{T: x.Cap})
	}
}

func valueString(v Value) string {
	var sb strings.Builder
	leaves(v, "", func(p string, s Sc) { sb.WriteString(p + "=" + s.S + " ") })
	return sb.String()
}

// valueEq builds the leafwise equality of two values of the same shape.
func valueEq(a, b Value) (T, bool) {
	var conj []T
	_, ok := zipLeaves(a, b, func(x, y Sc) Sc {
		conj = append(conj, mkEq(x.T, y.T))
		return x
	})
	if !ok {
		return tFalse, false
	}
	return mkAnd(conj...), true
}

// selectBig indexes a Big at i: leaves become (select leaf i).
func selectBig(b Big, i T) Value {
	return mapLeaves(b.Elem, func(s Sc) Sc {
		es := arrayElemSort(s.Sort)
		return Sc{T: T{"(select " + s.S + " " + i.S + ")", es}, Signed: s.Signed}
	})
}

// storeBig writes element value e at index i.
func storeBig(b Big, i T, e Value) Value {
	r, ok := zipLeaves(b.Elem, liftLike(b.Elem, e), func(arr, val Sc) Sc {
		return Sc{T: T{"(store " + arr.S + " " + i.S + " " + val.S + ")", arr.Sort}, Signed: arr.Signed}
	})
	if !ok {
		panic("storeBig: shape mismatch")
	}
	return Big{r, b.Typ, b.N}
}

// liftLike re-tags e's leaves so that zipLeaves accepts (array leaf, element leaf) pairs: it sets
// each leaf's Sort to the array sort while keeping the element term; used only by storeBig.
func liftLike(tmpl Value, e Value) Value {
	switch t := tmpl.(type) {
	case Sc:
		s := e.(Sc)
		return Sc{T: T{s.S, t.Sort}, Signed: s.Signed}
	case Agg:
		x := e.(Agg)
		out := make([]Value, len(t.Elems))
		for i := range t.Elems {
			out[i] = liftLike(t.Elems[i], x.Elems[i])
		}
		return Agg{out, t.Typ}
	case Big:
		x := e.(Big)
		return Big{liftLike(t.Elem, x.Elem), t.Typ, t.N}
	}
	return e
}

func arraySort(elem string) string { return "(Array (_ BitVec 64) " + elem + ")" }

func arrayElemSort(s string) string {
	const p = "(Array (_ BitVec 64) "
	if !strings.HasPrefix(s, p) {
		panic("not an array sort: " + s)
	}
	return s[len(p) : len(s)-1]
}
