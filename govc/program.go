package main

import (
	"fmt"
	"go/token"
	"go/types"
	"os"
	"path/filepath"
	"regexp"
	"strings"

	"golang.org/x/tools/go/packages"
	"golang.org/x/tools/go/ssa"
	"golang.org/x/tools/go/ssa/ssautil"
)

type SpecSig struct {
	Params []string
	Ret    string
}

type Program struct {
	fset      *token.FileSet
	ssaProg   *ssa.Program
	pkgs      []*ssa.Package // module packages
	byShort   map[string]*ssa.Package
	contracts *Contracts
	specSigs  map[string]SpecSig
	usedSpec  map[string]bool
	prelude   string
	preludes  map[string]string
	tables    map[*ssa.Global]Value
	tablesOK  map[*ssa.Global]bool
	funcs     map[string]*ssa.Function // by short name
	wfCache   map[*ssa.Function]int
	externOK  map[string]bool
	unitExtern []string
	specDir   string
	repo      string
	contractSource map[string]string // pkg short -> "repo" | "mirror"
}

func loadProgram(repo, specDir, mirrorDir string, patterns []string, dir string) (*Program, error) {
	cfg := &packages.Config{Mode: packages.LoadAllSyntax, Dir: dir, BuildFlags: []string{"-tags=verif"}}
	cfg.Env = append(os.Environ(), "GOFLAGS=-mod=mod", "GOPROXY=off")
	pkgs, err := packages.Load(cfg, patterns...)
	if err != nil {
		return nil, err
	}
	for _, p := range pkgs {
		for _, e := range p.Errors {
			return nil, fmt.Errorf("package %s: %v", p.PkgPath, e)
		}
	}
	prog, spkgs := ssautil.AllPackages(pkgs, ssa.InstantiateGenerics|ssa.GlobalDebug)
	prog.Build()
	p := &Program{fset: prog.Fset, ssaProg: prog, byShort: map[string]*ssa.Package{}, contracts: newContracts(),
		specSigs: map[string]SpecSig{}, usedSpec: map[string]bool{}, tables: map[*ssa.Global]Value{}, tablesOK: map[*ssa.Global]bool{},
		funcs: map[string]*ssa.Function{}, wfCache: map[*ssa.Function]int{}, externOK: map[string]bool{}, specDir: specDir, repo: repo,
		contractSource: map[string]string{}}
	for _, sp := range spkgs {
		if sp == nil {
			continue
		}
		p.pkgs = append(p.pkgs, sp)
		p.byShort[sp.Pkg.Name()] = sp
	}
	// also dependencies inside the module (e.g. when only ./uci was requested)
	for _, sp := range prog.AllPackages() {
		if strings.HasPrefix(sp.Pkg.Path(), strings.TrimSuffix(modulePrefix, "/")) {
			if _, ok := p.byShort[sp.Pkg.Name()]; !ok {
				p.pkgs = append(p.pkgs, sp)
				p.byShort[sp.Pkg.Name()] = sp
			}
		}
	}
	for fn := range ssautil.AllFunctions(prog) {
		p.funcs[shortFuncName(fn)] = fn
	}
	// contract files: <pkgdir>/contracts_verif.go in the working tree, else the mirror
	for _, sp := range p.pkgs {
		short := sp.Pkg.Name()
		rel := strings.TrimPrefix(sp.Pkg.Path(), strings.TrimSuffix(modulePrefix, "/"))
		rel = strings.TrimPrefix(rel, "/")
		path := filepath.Join(repo, rel, "contracts_verif.go")
		if _, err := os.Stat(path); err != nil {
			alt := filepath.Join(mirrorDir, strings.ReplaceAll(relOrRoot(rel), "/", "_")+".go")
			if _, err2 := os.Stat(alt); err2 != nil {
				continue
			}
			path = alt
			p.contractSource[short] = "mirror"
		} else {
			p.contractSource[short] = "repo"
		}
		if err := p.contracts.LoadContractFile(path, short); err != nil {
			return nil, err
		}
	}
	// preludes: one per package (builtin + the spec files its contract file imports); signatures of
	// all spec files are known globally
	loaded := map[string]string{}
	load := func(f string) (string, error) {
		if t, ok := loaded[f]; ok {
			return t, nil
		}
		data, err := os.ReadFile(filepath.Join(specDir, f))
		if err != nil {
			return "", fmt.Errorf("spec file %s: %v", f, err)
		}
		loaded[f] = string(data)
		p.parseSpecSigs(string(data))
		return string(data), nil
	}
	p.preludes = map[string]string{}
	// every package sees all quantifier-free spec files (contracts of callees in other packages may
	// mention them); files with quantified axioms are included only for packages importing them
	for _, f := range p.contracts.Imports {
		if _, err := load(f); err != nil {
			return nil, err
		}
	}
	mk := func(files []string) (string, error) {
		var sb strings.Builder
		seen := map[string]bool{}
		sorts := map[string]bool{}
		order := []string{"builtin.smt2"}
		for _, f := range p.contracts.Imports {
			if !strings.Contains(loaded[f], "(forall") {
				order = append(order, f)
			}
		}
		order = append(order, files...)
		for _, f := range order {
			if seen[f] {
				continue
			}
			seen[f] = true
			t, err := load(f)
			if err != nil {
				return "", err
			}
			sb.WriteString("; ---- " + f + "\n")
			for _, ln := range strings.Split(t, "\n") {
				if strings.HasPrefix(ln, "(define-sort ") {
					name := strings.Fields(ln)[1]
					if sorts[name] {
						continue
					}
					sorts[name] = true
				}
				sb.WriteString(ln + "\n")
			}
		}
		return sb.String(), nil
	}
	for pkg, files := range p.contracts.ImportsByPkg {
		t, err := mk(files)
		if err != nil {
			return nil, err
		}
		p.preludes[pkg] = t
	}
	var sb strings.Builder
	t0, err := mk(nil)
	if err != nil {
		return nil, err
	}
	sb.WriteString(t0)
	p.prelude = sb.String()
	return p, nil
}

func relOrRoot(rel string) string {
	if rel == "" {
		return "root"
	}
	return rel
}

var defFunRe = regexp.MustCompile(`(?m)^\((define-fun|declare-fun|define-fun-rec)\s+([^\s()]+)\s+\(`)

// parseSpecSigs extracts the signatures of define-fun / declare-fun commands.
func (p *Program) parseSpecSigs(src string) {
	src = regexp.MustCompile(`(?m);.*$`).ReplaceAllString(src, "")
	sorts := map[string]string{}
	for _, m := range regexp.MustCompile(`(?m)^\(define-sort\s+(\S+)\s+\(\)\s+(.+)\)\s*$`).FindAllStringSubmatch(src, -1) {
		sorts[m[1]] = strings.TrimSpace(m[2])
	}
	for k, v := range p.sortAliases() {
		if _, ok := sorts[k]; !ok {
			sorts[k] = v
		}
	}
	for k, v := range sorts {
		p.sortAlias(k, v)
	}
	norm := func(s string) string {
		s = strings.TrimSpace(s)
		if v, ok := p.sortAliases()[s]; ok {
			return v
		}
		return s
	}
	for _, loc := range defFunRe.FindAllStringSubmatchIndex(src, -1) {
		kind := src[loc[2]:loc[3]]
		name := src[loc[4]:loc[5]]
		// parse parameter list starting at the '(' that ends the match
		i := loc[1] - 1
		end := matchParen(src, i)
		params := src[i+1 : end]
		var ps []string
		if kind == "declare-fun" {
			for _, s := range splitSexprs(params) {
				ps = append(ps, norm(s))
			}
		} else {
			for _, s := range splitSexprs(params) {
				inner := strings.TrimSpace(s[1 : len(s)-1])
				sp := strings.IndexAny(inner, " \t")
				ps = append(ps, norm(inner[sp+1:]))
			}
		}
		rest := strings.TrimLeft(src[end+1:], " \t\n")
		var ret string
		if strings.HasPrefix(rest, "(") {
			e := matchParen(rest, 0)
			ret = rest[:e+1]
		} else {
			j := strings.IndexAny(rest, " \t\n)")
			ret = rest[:j]
		}
		p.specSigs[name] = SpecSig{ps, norm(ret)}
	}
	// datatypes: constructors and selectors
	for i := 0; ; {
		j := strings.Index(src[i:], "(declare-datatypes")
		if j < 0 {
			break
		}
		j += i
		end := matchParen(src, j)
		parts := splitSexprs(src[j+1 : end]) // declare-datatypes, ((Name 0)...), ((ctors...)...)
		i = end
		if len(parts) != 3 {
			continue
		}
		names := splitSexprs(parts[1][1 : len(parts[1])-1])
		defs := splitSexprs(parts[2][1 : len(parts[2])-1])
		for k, nm := range names {
			if k >= len(defs) {
				break
			}
			tname := strings.Fields(strings.Trim(nm, "()"))[0]
			for _, ctor := range splitSexprs(defs[k][1 : len(defs[k])-1]) {
				cp := splitSexprs(ctor[1 : len(ctor)-1])
				var ps []string
				for _, sel := range cp[1:] {
					sp := splitSexprs(sel[1 : len(sel)-1])
					srt := norm(strings.Join(sp[1:], " "))
					ps = append(ps, srt)
					p.specSigs[sp[0]] = SpecSig{[]string{tname}, srt}
				}
				p.specSigs[cp[0]] = SpecSig{ps, tname}
			}
		}
	}
}

var sortAliasTable = map[string]string{}

func (p *Program) sortAliases() map[string]string { return sortAliasTable }
func (p *Program) sortAlias(k, v string)          { sortAliasTable[k] = v }

func matchParen(s string, i int) int {
	depth := 0
	for j := i; j < len(s); j++ {
		switch s[j] {
		case '(':
			depth++
		case ')':
			depth--
			if depth == 0 {
				return j
			}
		}
	}
	return len(s) - 1
}

func splitSexprs(s string) []string {
	var out []string
	i := 0
	for i < len(s) {
		switch {
		case s[i] == ' ' || s[i] == '\t' || s[i] == '\n':
			i++
		case s[i] == '(':
			e := matchParen(s, i)
			out = append(out, s[i:e+1])
			i = e + 1
		default:
			j := i
			for j < len(s) && s[j] != ' ' && s[j] != '\t' && s[j] != '\n' && s[j] != '(' {
				j++
			}
			out = append(out, s[i:j])
			i = j
		}
	}
	return out
}

func (p *Program) inModule(f *ssa.Function) bool {
	if f.Pkg == nil {
		if f.Origin() != nil && f.Origin().Pkg != nil {
			pp := f.Origin().Pkg.Pkg.Path()
			return strings.HasPrefix(pp, strings.TrimSuffix(modulePrefix, "/")) || strings.HasPrefix(pp, "golang.org/x/exp/constraints")
		}
		if f.Parent() != nil {
			return p.inModule(f.Parent())
		}
		return false
	}
	return strings.HasPrefix(f.Pkg.Pkg.Path(), strings.TrimSuffix(modulePrefix, "/"))
}

func (p *Program) allowExtern(name string) bool {
	for _, k := range p.unitExtern {
		if strings.HasPrefix(name, k) || strings.Contains(name, k) {
			return true
		}
	}
	for k := range p.externOK {
		if strings.HasPrefix(name, k) || strings.Contains(name, k) {
			return true
		}
	}
	return false
}

func (p *Program) packageByShortName(name string) *types.Package {
	if sp, ok := p.byShort[name]; ok {
		return sp.Pkg
	}
	return nil
}

func (p *Program) lookupInPackage(pkg *types.Package, name string) types.Object {
	if obj := pkg.Scope().Lookup(name); obj != nil {
		return obj
	}
	for _, imp := range pkg.Imports() {
		// dot imports cannot be distinguished here; accept exported names of module packages
		if strings.HasPrefix(imp.Path(), strings.TrimSuffix(modulePrefix, "/")) && token.IsExported(name) {
			if obj := imp.Scope().Lookup(name); obj != nil && imp.Name() == "chess" {
				return obj
			}
		}
	}
	return nil
}

func (p *Program) lookupAnywhere(name string) types.Object {
	if !token.IsExported(name) {
		return nil
	}
	if sp, ok := p.byShort["chess"]; ok {
		if obj := sp.Pkg.Scope().Lookup(name); obj != nil {
			return obj
		}
	}
	var found types.Object
	for _, sp := range p.pkgs {
		if obj := sp.Pkg.Scope().Lookup(name); obj != nil {
			if found != nil {
				return nil // ambiguous
			}
			found = obj
		}
	}
	return found
}

func (p *Program) funcAnywhere(name string) *ssa.Function {
	var found *ssa.Function
	for _, sp := range p.pkgs {
		if f := sp.Func(name); f != nil {
			if found != nil {
				return nil
			}
			found = f
		}
	}
	return found
}

func (p *Program) globalFor(v *types.Var) *ssa.Global {
	if v.Pkg() == nil {
		return nil
	}
	sp := p.ssaProg.Package(v.Pkg())
	if sp == nil {
		return nil
	}
	g, _ := sp.Members[v.Name()].(*ssa.Global)
	return g
}

// methodFor finds the method `name` for a symbolic receiver value.
func (p *Program) methodFor(recv Value, name string) *ssa.Function {
	var t types.Type
	switch r := recv.(type) {
	case Agg:
		t = r.Typ
	case Ptr:
		if r.Obj != nil {
			t = r.Obj.Typ
			for _, s := range r.Path {
				if t == nil {
					break
				}
				switch u := t.Underlying().(type) {
				case *types.Struct:
					if s.Field >= 0 {
						t = u.Field(s.Field).Type()
					}
				case *types.Array:
					t = u.Elem()
				}
			}
			if t != nil {
				if f := p.lookupMethod(types.NewPointer(t), name); f != nil {
					return f
				}
			}
		}
	case Sc:
		// scalar named types: search all named types with that method whose width/sign match
		var found *ssa.Function
		for _, sp := range p.pkgs {
			for _, m := range sp.Members {
				tn, ok := m.(*ssa.Type)
				if !ok {
					continue
				}
				sort, signed, ok := scalarSort(tn.Type())
				if !ok || sort != r.Sort || signed != r.Signed {
					continue
				}
				if f := p.lookupMethod(tn.Type(), name); f != nil {
					if found != nil && found != f {
						return nil
					}
					found = f
				}
			}
		}
		return found
	}
	if t == nil {
		return nil
	}
	return p.lookupMethod(t, name)
}

func (p *Program) lookupMethod(t types.Type, name string) *ssa.Function {
	ms := p.ssaProg.MethodSets.MethodSet(t)
	for i := 0; i < ms.Len(); i++ {
		if ms.At(i).Obj().Name() == name {
			return p.ssaProg.MethodValue(ms.At(i))
		}
	}
	return nil
}

// ---------------------------------------------------------------------------------------------
// constant tables: package-level arrays initialised by a composite literal and never written again

func (p *Program) constTable(g *ssa.Global) Value {
	if done, ok := p.tablesOK[g]; ok {
		if done {
			return p.tables[g]
		}
		return nil
	}
	p.tablesOK[g] = false
	if g.Pkg == nil || !p.onlyRead(g) {
		return nil
	}
	init := g.Pkg.Func("init")
	if init == nil {
		return nil
	}
	elem := g.Type().(*types.Pointer).Elem()
	if _, isArr := elem.Underlying().(*types.Array); !isArr {
		if _, _, isSc := scalarSort(elem); !isSc {
			return nil
		}
	}
	x := &Exec{vc: newVC("init"), prog: p, inits: map[*Object]Value{}, globals: map[*ssa.Global]*Object{}, ghosts: map[string]*Object{}, counters: map[string]int{}}
	val := x.zeroValue(elem)
	wrote := false
	// follow static address computations in init
	addrs := map[ssa.Value][]Sel{}
	for _, b := range init.Blocks {
		for _, in := range b.Instrs {
			switch i := in.(type) {
			case *ssa.IndexAddr:
				var base []Sel
				ok := false
				if i.X == ssa.Value(g) {
					base, ok = nil, true
				} else if bp, has := addrs[i.X]; has {
					base, ok = bp, true
				}
				if !ok {
					continue
				}
				c, isC := i.Index.(*ssa.Const)
				if !isC {
					return nil
				}
				addrs[i] = append(append([]Sel(nil), base...), Sel{Field: -1, Idx: lit(64, uint64(c.Int64()))})
			case *ssa.FieldAddr:
				if bp, has := addrs[i.X]; has {
					addrs[i] = append(append([]Sel(nil), bp...), Sel{Field: i.Field})
				}
			case *ssa.Store:
				var path []Sel
				ok := false
				if i.Addr == ssa.Value(g) {
					path, ok = nil, true
				} else if bp, has := addrs[i.Addr]; has {
					path, ok = bp, true
				}
				if !ok {
					continue
				}
				c, isC := i.Val.(*ssa.Const)
				if !isC {
					// e.g. whole-array store from a local composite: give up
					return nil
				}
				val = x.writePath(val, path, x.constValue(c))
				wrote = true
			}
		}
	}
	if !wrote {
		// zero-initialised and never written: still a constant table only if it has an initialiser;
		// tables filled by init functions are not constant tables.
		return nil
	}
	p.tables[g] = val
	p.tablesOK[g] = true
	return val
}

// onlyRead reports whether no function other than the package initialiser stores through g.
func (p *Program) onlyRead(g *ssa.Global) bool {
	refs := g.Referrers()
	_ = refs
	for _, fn := range p.funcs {
		if fn.Pkg == g.Pkg && fn.Name() == "init" && fn.Synthetic != "" {
			continue
		}
		for _, b := range fn.Blocks {
			for _, in := range b.Instrs {
				for _, op := range in.Operands(nil) {
					if *op == ssa.Value(g) {
						if !readOnlyUse(in, g) {
							return false
						}
					}
				}
			}
		}
	}
	return true
}

func readOnlyUse(in ssa.Instruction, v ssa.Value) bool {
	switch i := in.(type) {
	case *ssa.UnOp:
		return i.Op == token.MUL
	case *ssa.IndexAddr, *ssa.FieldAddr:
		val := in.(ssa.Value)
		refs := val.Referrers()
		if refs == nil {
			return false
		}
		for _, r := range *refs {
			if !readOnlyUse(r, val) {
				return false
			}
		}
		return true
	case *ssa.DebugRef:
		return true
	case *ssa.Slice:
		val := in.(ssa.Value)
		refs := val.Referrers()
		if refs == nil {
			return false
		}
		for _, r := range *refs {
			if !readOnlyUse(r, val) {
				return false
			}
		}
		return true
	case *ssa.Range:
		return true
	}
	return false
}

type constMapT struct {
	keys []uint64
	vals []uint64
	kw   int
	vsort string
	vsigned bool
}

func (m *constMapT) lookup(x *Exec, key Sc) (Value, T) {
	res := lit0(sortWidth(m.vsort))
	ok := tFalse
	for i := len(m.keys) - 1; i >= 0; i-- {
		c := mkEq(key.T, lit(m.kw, m.keys[i]))
		res = mkIte(c, lit(sortWidth(m.vsort), m.vals[i]), res)
		ok = mkOr(c, ok)
	}
	return Sc{T: res, Signed: m.vsigned}, ok
}

// constMap recognises a read-only package-level map initialised from a literal.
func (p *Program) constMap(v ssa.Value) *constMapT {
	u, ok := v.(*ssa.UnOp)
	if !ok || u.Op != token.MUL {
		return nil
	}
	g, ok := u.X.(*ssa.Global)
	if !ok || g.Pkg == nil {
		return nil
	}
	init := g.Pkg.Func("init")
	if init == nil {
		return nil
	}
	mt, ok := g.Type().(*types.Pointer).Elem().Underlying().(*types.Map)
	if !ok {
		return nil
	}
	ksort, _, ok1 := scalarSort(mt.Key())
	vsort, vsigned, ok2 := scalarSort(mt.Elem())
	if !ok1 || !ok2 || ksort == BoolSort || vsort == BoolSort {
		return nil
	}
	// no MapUpdate on this map outside init
	for _, fn := range p.funcs {
		if fn == init {
			continue
		}
		for _, b := range fn.Blocks {
			for _, in := range b.Instrs {
				if mu, ok := in.(*ssa.MapUpdate); ok {
					if l, ok := mu.Map.(*ssa.UnOp); ok && l.X == ssa.Value(g) {
						return nil
					}
				}
				if s, ok := in.(*ssa.Store); ok && s.Addr == ssa.Value(g) {
					return nil
				}
			}
		}
	}
	m := &constMapT{kw: sortWidth(ksort), vsort: vsort, vsigned: vsigned}
	var mk ssa.Value
	for _, b := range init.Blocks {
		for _, in := range b.Instrs {
			if s, ok := in.(*ssa.Store); ok && s.Addr == ssa.Value(g) {
				mk = s.Val
			}
		}
	}
	if mk == nil {
		return nil
	}
	for _, b := range init.Blocks {
		for _, in := range b.Instrs {
			if mu, ok := in.(*ssa.MapUpdate); ok && mu.Map == mk {
				kc, ok1 := mu.Key.(*ssa.Const)
				vc, ok2 := mu.Value.(*ssa.Const)
				if !ok1 || !ok2 {
					return nil
				}
				m.keys = append(m.keys, kc.Uint64())
				m.vals = append(m.vals, uint64(vc.Int64()))
			}
		}
	}
	return m
}

// writeFree: 1 = the function (transitively) performs no stores to non-local memory, 2 = it may.
func (p *Program) writeFree(f *ssa.Function) bool {
	return p.wf(f, map[*ssa.Function]bool{}) == 1
}

func (p *Program) wf(f *ssa.Function, visiting map[*ssa.Function]bool) int {
	if r, ok := p.wfCache[f]; ok {
		return r
	}
	if visiting[f] {
		return 1
	}
	visiting[f] = true
	res := 1
	if len(f.Blocks) == 0 {
		if strings.HasPrefix(shortFuncName(f), "math/bits.") {
			return 1
		}
		return 2
	}
	for _, b := range f.Blocks {
		for _, in := range b.Instrs {
			switch i := in.(type) {
			case *ssa.Store:
				if !localAddr(i.Addr) {
					res = 2
				}
			case *ssa.MapUpdate, *ssa.Send, *ssa.Go:
				res = 2
			case ssa.CallInstruction:
				cc := i.Common()
				if _, isB := cc.Value.(*ssa.Builtin); isB {
					n := cc.Value.Name()
					if n == "append" || n == "copy" {
						res = 2
					}
					continue
				}
				callee := cc.StaticCallee()
				if callee == nil {
					res = 2
					continue
				}
				if p.wf(callee, visiting) == 2 {
					res = 2
				}
			}
		}
	}
	p.wfCache[f] = res
	return res
}

func localAddr(v ssa.Value) bool {
	for {
		switch a := v.(type) {
		case *ssa.Alloc:
			return !a.Heap
		case *ssa.FieldAddr:
			v = a.X
		case *ssa.IndexAddr:
			if _, isPtr := a.X.Type().Underlying().(*types.Pointer); !isPtr {
				return false
			}
			v = a.X
		default:
			return false
		}
	}
}

func (p *Program) writesGlobals(f *ssa.Function) bool {
	seen := map[*ssa.Function]bool{}
	var walk func(f *ssa.Function) bool
	walk = func(f *ssa.Function) bool {
		if seen[f] {
			return false
		}
		seen[f] = true
		for _, b := range f.Blocks {
			for _, in := range b.Instrs {
				switch i := in.(type) {
				case *ssa.Store:
					v := i.Addr
					for {
						if _, isG := v.(*ssa.Global); isG {
							return true
						}
						if fa, ok := v.(*ssa.FieldAddr); ok {
							v = fa.X
							continue
						}
						if ia, ok := v.(*ssa.IndexAddr); ok {
							v = ia.X
							continue
						}
						break
					}
				case ssa.CallInstruction:
					if c := i.Common().StaticCallee(); c != nil && walk(c) {
						return true
					}
				}
			}
		}
		return false
	}
	return walk(f)
}

// factJustified checks that a fact is established by a verified function of the same property.
func (p *Program) factJustified(fact string, prop string) string {
	for _, fc := range p.contracts.Funcs {
		for _, e := range fc.Establishes {
			if e == fact {
				if fc.Trusted != "" {
					return "fact " + fact + " is established by a trusted (unverified) function"
				}
				if !hasProp(fc.Props, prop) {
					return "fact " + fact + " is established by " + fc.Key + " which is not checked under " + prop
				}
				return ""
			}
		}
	}
	return "fact " + fact + " is not established by any function"
}

// checkWriters verifies the `writers GLOBAL: funcs` directives by a scan of the SSA: stores whose
// address is rooted at the global may occur only in the listed functions.
func (p *Program) checkWriters(prop string) *Unit {
	if len(p.contracts.Writers) == 0 {
		return nil
	}
	var errs []string
	for gname, allowed := range p.contracts.Writers {
		parts := strings.SplitN(gname, ".", 2)
		sp := p.byShort[parts[0]]
		if sp == nil {
			continue
		}
		g, _ := sp.Members[parts[1]].(*ssa.Global)
		if g == nil {
			errs = append(errs, "writers: no global "+gname)
			continue
		}
		ok := map[string]bool{}
		for _, a := range allowed {
			ok[a] = true
		}
		for name, fn := range p.funcs {
			if ok[name] {
				continue
			}
			for _, b := range fn.Blocks {
				for _, in := range b.Instrs {
					for _, op := range in.Operands(nil) {
						if *op == ssa.Value(g) && !readOnlyUse(in, g) {
							errs = append(errs, fmt.Sprintf("%s is written (or its address escapes) in %s", gname, name))
						}
					}
				}
			}
		}
	}
	if len(errs) == 0 {
		return nil
	}
	return &Unit{Name: "writers-scan", Kind: "lemma", Props: []string{prop}, VC: newVC("writers"), Err: strings.Join(errs, "; ")}
}

// preludeFor returns the SMT prelude for a unit of the given package.
func (p *Program) preludeFor(pkg string) string {
	if t, ok := p.preludes[pkg]; ok {
		return t
	}
	return p.prelude
}

// readFields collects the names of the fields of the struct pointed to by parameter `param` that the
// call tree of fn may read or write, following the pointer through static calls, phis and closures'
// bindings.  ok=false if the pointer escapes the analysis (stored, converted, passed to unknown code,
// or the whole struct is copied).
func (p *Program) readFields(fn *ssa.Function, param string) (map[string]bool, string) {
	fields := map[string]bool{}
	type key struct {
		fn  *ssa.Function
		idx int
	}
	seen := map[key]bool{}
	var problem string
	var follow func(f *ssa.Function, v ssa.Value, visited map[ssa.Value]bool)
	follow = func(f *ssa.Function, v ssa.Value, visited map[ssa.Value]bool) {
		if visited[v] || problem != "" {
			return
		}
		visited[v] = true
		refs := v.Referrers()
		if refs == nil {
			return
		}
		for _, in := range *refs {
			switch i := in.(type) {
			case *ssa.FieldAddr:
				st := i.X.Type().Underlying().(*types.Pointer).Elem().Underlying().(*types.Struct)
				fields[st.Field(i.Field).Name()] = true
			case *ssa.DebugRef:
			case *ssa.Phi:
				follow(f, i, visited)
			case *ssa.UnOp:
				problem = "the whole struct is copied in " + f.String()
			case ssa.CallInstruction:
				cc := i.Common()
				callee := cc.StaticCallee()
				if callee == nil || len(callee.Blocks) == 0 {
					problem = "the pointer is passed to code without a body (" + cc.String() + ") in " + f.String()
					return
				}
				for k, a := range cc.Args {
					if a == v {
						kk := key{callee, k}
						if seen[kk] {
							continue
						}
						seen[kk] = true
						if k < len(callee.Params) {
							follow(callee, callee.Params[k], map[ssa.Value]bool{})
						}
					}
				}
			case *ssa.BinOp:
				// comparison with nil
			case *ssa.MakeClosure:
				for k, b := range i.Bindings {
					if b == v {
						cf := i.Fn.(*ssa.Function)
						follow(cf, cf.FreeVars[k], map[ssa.Value]bool{})
					}
				}
			default:
				problem = fmt.Sprintf("the pointer escapes through %T in %s", in, f.String())
			}
		}
	}
	for _, prm := range fn.Params {
		if prm.Name() == param {
			follow(fn, prm, map[ssa.Value]bool{})
			return fields, problem
		}
	}
	return fields, "no parameter " + param
}

// writesOnlyLocals reports whether every store in the call tree of fn goes through an address that
// derives from a local allocation (of fn or of a callee), never from a global, from one of fn's own
// pointer parameters or from a pointer loaded from memory.  Returns a description of the first
// offending store otherwise.
func (p *Program) writesOnlyLocals(fn *ssa.Function, via ...string) string {
	allowed := map[string]bool{}
	for _, v := range via {
		allowed[v] = true
	}
	type ctxKey struct {
		fn  *ssa.Function
		cls string
	}
	done := map[ctxKey]bool{}
	var problem string
	var analyze func(f *ssa.Function, paramLocal []bool, freeLocal []bool)
	analyze = func(f *ssa.Function, paramLocal []bool, freeLocal []bool) {
		if problem != "" || len(f.Blocks) == 0 {
			return
		}
		k := ctxKey{f, fmt.Sprint(paramLocal, freeLocal)}
		if done[k] {
			return
		}
		done[k] = true
		var isLocal func(v ssa.Value, depth int) bool
		isLocal = func(v ssa.Value, depth int) bool {
			if depth > 50 {
				return false
			}
			switch a := v.(type) {
			case *ssa.Alloc:
				return true
			case *ssa.FieldAddr:
				return isLocal(a.X, depth+1)
			case *ssa.IndexAddr:
				if _, isPtr := a.X.Type().Underlying().(*types.Pointer); isPtr {
					return isLocal(a.X, depth+1)
				}
				return isLocal(a.X, depth+1) // slice of a local array
			case *ssa.Slice:
				return isLocal(a.X, depth+1)
			case *ssa.Parameter:
				for i, prm := range f.Params {
					if prm == a {
						return i < len(paramLocal) && paramLocal[i]
					}
				}
			case *ssa.FreeVar:
				for i, fv := range f.FreeVars {
					if fv == a {
						return i < len(freeLocal) && freeLocal[i]
					}
				}
			case *ssa.Phi:
				for _, e := range a.Edges {
					if e != v && !isLocal(e, depth+1) {
						return false
					}
				}
				return true
			}
			return false
		}
		for _, b := range f.Blocks {
			for _, in := range b.Instrs {
				switch i := in.(type) {
				case *ssa.Store:
					if !isLocal(i.Addr, 0) {
						problem = fmt.Sprintf("store %v in %s", i, f.String())
						return
					}
				case *ssa.MapUpdate, *ssa.Send, *ssa.Go:
					problem = fmt.Sprintf("%v in %s", i, f.String())
					return
				case ssa.CallInstruction:
					cc := i.Common()
					if bi, isB := cc.Value.(*ssa.Builtin); isB {
						if (bi.Name() == "append" || bi.Name() == "copy") && !isLocal(cc.Args[0], 0) {
							problem = fmt.Sprintf("%s into non-local memory in %s", bi.Name(), f.String())
							return
						}
						continue
					}
					callee := cc.StaticCallee()
					if callee == nil {
						problem = "dynamic call in " + f.String()
						return
					}
					if callee.Pkg != nil && (callee.Pkg.Pkg.Path() == "math" || callee.Pkg.Pkg.Path() == "math/bits") {
						continue // pure numeric library functions
					}
					if allowed[shortFuncName(callee)] {
						continue // the designated writer (its own contract says what it writes)
					}
					if len(callee.Blocks) == 0 {
						problem = "call to " + callee.String() + " (no body) in " + f.String()
						return
					}
					var pl []bool
					for _, a := range cc.Args {
						pl = append(pl, isLocal(a, 0))
					}
					var fl []bool
					if mc, ok := cc.Value.(*ssa.MakeClosure); ok {
						for _, bnd := range mc.Bindings {
							fl = append(fl, isLocal(bnd, 0))
						}
					}
					analyze(callee, pl, fl)
				}
			}
		}
	}
	pl := make([]bool, len(fn.Params))
	analyze(fn, pl, nil)
	return problem
}

// globalWrites scans the static call tree of fn (bodies inside the module) for writes to package-level
// variables: stores through addresses rooted at a global, map updates on maps read from a global, and
// append / copy into slices of a global array.  Returns the offending sites.
func (p *Program) globalWrites(fn *ssa.Function) []string {
	var out []string
	seen := map[*ssa.Function]bool{}
	var rooted func(v ssa.Value, depth int) *ssa.Global
	rooted = func(v ssa.Value, depth int) *ssa.Global {
		if depth > 40 {
			return nil
		}
		switch a := v.(type) {
		case *ssa.Global:
			return a
		case *ssa.FieldAddr:
			return rooted(a.X, depth+1)
		case *ssa.IndexAddr:
			return rooted(a.X, depth+1)
		case *ssa.Slice:
			return rooted(a.X, depth+1)
		case *ssa.UnOp:
			if a.Op == token.MUL {
				return rooted(a.X, depth+1) // a pointer / slice / map kept in a global
			}
		case *ssa.ChangeType:
			return rooted(a.X, depth+1)
		case *ssa.Phi:
			for _, e := range a.Edges {
				if e != v {
					if g := rooted(e, depth+1); g != nil {
						return g
					}
				}
			}
		case *ssa.Call:
			if bi, ok := a.Call.Value.(*ssa.Builtin); ok && bi.Name() == "append" && len(a.Call.Args) > 0 {
				return rooted(a.Call.Args[0], depth+1)
			}
		}
		return nil
	}
	var walk func(f *ssa.Function)
	walk = func(f *ssa.Function) {
		if seen[f] || len(f.Blocks) == 0 || !p.inModule(f) {
			return
		}
		seen[f] = true
		for _, b := range f.Blocks {
			for _, in := range b.Instrs {
				switch i := in.(type) {
				case *ssa.Store:
					if g := rooted(i.Addr, 0); g != nil {
						out = append(out, fmt.Sprintf("%s is written in %s", g.Name(), f.String()))
					}
				case *ssa.MapUpdate:
					if g := rooted(i.Map, 0); g != nil {
						out = append(out, fmt.Sprintf("map %s is updated in %s", g.Name(), f.String()))
					}
				case *ssa.UnOp:
					// a pointer / channel kept in a package-level variable of this module is a handle to state
					// shared by every caller: loading it lets that state be written through aliases the scan
					// cannot follow (fields, arguments), so the load itself is reported
					if g, ok := i.X.(*ssa.Global); ok && i.Op == token.MUL && g.Pkg != nil && p.inModule(f) && p.pkgInModule(g.Pkg) {
						switch g.Type().(*types.Pointer).Elem().Underlying().(type) {
						case *types.Pointer, *types.Chan:
							out = append(out, fmt.Sprintf("shared handle %s (a pointer kept in a package-level variable) is loaded in %s", g.Name(), f.String()))
						}
					}
				case ssa.CallInstruction:
					cc := i.Common()
					if bi, isB := cc.Value.(*ssa.Builtin); isB {
						if (bi.Name() == "append" || bi.Name() == "copy") && len(cc.Args) > 0 {
							if g := rooted(cc.Args[0], 0); g != nil {
								out = append(out, fmt.Sprintf("%s into %s in %s", bi.Name(), g.Name(), f.String()))
							}
						}
						continue
					}
					if callee := cc.StaticCallee(); callee != nil {
						walk(callee)
					}
					if mc, ok := cc.Value.(*ssa.MakeClosure); ok {
						if cf, ok2 := mc.Fn.(*ssa.Function); ok2 {
							walk(cf)
						}
					}
				case *ssa.MakeClosure:
					if cf, ok := i.Fn.(*ssa.Function); ok {
						walk(cf)
					}
				}
			}
		}
	}
	walk(fn)
	return out
}

// pkgInModule reports whether the SSA package belongs to the module under verification.
func (p *Program) pkgInModule(pk *ssa.Package) bool {
	for _, m := range pk.Members {
		if fn, ok := m.(*ssa.Function); ok {
			return p.inModule(fn)
		}
	}
	return false
}
