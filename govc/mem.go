package main

import (
	"fmt"
	"go/types"
	"os"
	"strings"
	"runtime/debug"

	"golang.org/x/tools/go/ssa"
)

// State is the symbolic state flowing along a control-flow edge.
type State struct {
	reach  T
	mem    map[*Object]Value
	env    map[ssa.Value]Value
	names  map[string]Value // source-level names -> current value (Ptr for address-taken locals)
	defers []deferRec
}

type deferRec struct {
	guard T
	call  *ssa.Defer
	args  []Value
	fn    Value
}

func (s State) clone() State {
	n := State{reach: s.reach}
	n.mem = make(map[*Object]Value, len(s.mem)+4)
	for k, v := range s.mem {
		n.mem[k] = v
	}
	n.env = make(map[ssa.Value]Value, len(s.env)+16)
	for k, v := range s.env {
		n.env[k] = v
	}
	n.names = make(map[string]Value, len(s.names)+8)
	for k, v := range s.names {
		n.names[k] = v
	}
	n.defers = append([]deferRec(nil), s.defers...)
	return n
}

type structureError struct{ msg string }

func (e structureError) Error() string { return e.msg }

func bail(format string, args ...interface{}) {
	if os.Getenv("GOVC_TRACE") != "" {
		fmt.Fprintf(os.Stderr, "bail: "+format+"\n", args...)
		debug.PrintStack()
	}
	panic(structureError{fmt.Sprintf(format, args...)})
}

// ---------------------------------------------------------------------------------------------
// object creation

func (x *Exec) newObject(name, kind string, typ types.Type) *Object {
	x.objCtr++
	o := &Object{ID: x.objCtr, Name: name, Typ: typ, Kind: kind}
	return o
}

// contents returns the current contents of obj in st, creating its initial (symbolic) contents on
// first use.
func (x *Exec) contents(st *State, o *Object) Value {
	if v, ok := st.mem[o]; ok {
		return v
	}
	return x.initial(o)
}

func (x *Exec) initial(o *Object) Value {
	if v, ok := x.inits[o]; ok {
		return v
	}
	var v Value
	switch {
	case o.Kind == "backing":
		v = Big{Elem: x.freshArrayLeaves(o.ElemTyp, o.Name, 1), Typ: o.ElemTyp, N: -1}
	case o.Kind == "global" && o.Global != nil && x.prog.constTable(o.Global) != nil:
		v = x.prog.constTable(o.Global)
	default:
		v = x.freshValue(o.Typ, o.Name)
	}
	x.inits[o] = v
	return v
}

// freshValue builds an unconstrained symbolic value of Go type t.
func (x *Exec) freshValue(t types.Type, hint string) Value {
	if sort, signed, ok := scalarSort(t); ok {
		return Sc{T: x.vc.input(hint, sort), Signed: signed}
	}
	switch u := t.Underlying().(type) {
	case *types.Struct:
		elems := make([]Value, u.NumFields())
		for i := 0; i < u.NumFields(); i++ {
			elems[i] = x.freshValue(u.Field(i).Type(), hint+"."+u.Field(i).Name())
		}
		return Agg{elems, t}
	case *types.Array:
		if isBigArray(u) {
			return Big{Elem: x.freshArrayLeaves(u.Elem(), hint, 1), Typ: u.Elem(), N: u.Len()}
		}
		elems := make([]Value, u.Len())
		for i := range elems {
			elems[i] = x.freshValue(u.Elem(), fmt.Sprintf("%s[%d]", hint, i))
		}
		return Agg{elems, t}
	case *types.Pointer:
		o := x.newObject(hint, "param", u.Elem())
		o.Lazy = true
		x.vc.note("pointer " + hint + " is non-nil and does not alias any other object")
		return Ptr{Obj: o}
	case *types.Slice:
		o := x.newObject(hint+"[]", "backing", nil)
		o.ElemTyp = u.Elem()
		o.Lazy = true
		ln := x.vc.input(hint+".len", bvSort(64))
		cp := x.vc.input(hint+".cap", bvSort(64))
		x.vc.assume(mkAnd(bvcmp("bvsle", lit(64, 0), ln), bvcmp("bvsle", ln, cp), bvcmp("bvsle", cp, lit(64, 1<<40))), "slice header "+hint)
		x.vc.note("slice " + hint + " has 0 <= len <= cap <= 2^40 and its backing array is not aliased")
		return Slc{Obj: o, Off: lit(64, 0), Len: ln, Cap: cp}
	}
	if _, isIface := t.Underlying().(*types.Interface); isIface {
		c := x.vc.fresh(hint+".isnil", BoolSort)
		return Opq{Typ: t, Tag: hint, NilC: &c}
	}
	return Opq{Typ: t, Tag: hint}
}

// freshArrayLeaves builds the element template of a Big: every scalar leaf is an SMT array nested
// depth times.
func (x *Exec) freshArrayLeaves(elem types.Type, hint string, depth int) Value {
	if sort, signed, ok := scalarSort(elem); ok {
		s := sort
		for i := 0; i < depth; i++ {
			s = arraySort(s)
		}
		return Sc{T: x.vc.fresh(hint, s), Signed: signed}
	}
	switch u := elem.Underlying().(type) {
	case *types.Struct:
		elems := make([]Value, u.NumFields())
		for i := 0; i < u.NumFields(); i++ {
			elems[i] = x.freshArrayLeaves(u.Field(i).Type(), hint+"."+u.Field(i).Name(), depth)
		}
		return Agg{elems, elem}
	case *types.Array:
		if isBigArray(u) {
			return Big{Elem: x.freshArrayLeaves(u.Elem(), hint, depth+1), Typ: u.Elem(), N: u.Len()}
		}
		elems := make([]Value, u.Len())
		for i := range elems {
			elems[i] = x.freshArrayLeaves(u.Elem(), fmt.Sprintf("%s[%d]", hint, i), depth)
		}
		return Agg{elems, elem}
	}
	return Opq{Typ: elem, Tag: hint}
}

// zeroValue builds Go's zero value of t.
func (x *Exec) zeroValue(t types.Type) Value {
	return x.zeroDepth(t, 0)
}

func (x *Exec) zeroDepth(t types.Type, depth int) Value {
	if sort, signed, ok := scalarSort(t); ok {
		var z T
		if sort == BoolSort {
			z = tFalse
		} else {
			z = lit0(sortWidth(sort))
		}
		s := sort
		for i := 0; i < depth; i++ {
			s2 := arraySort(s)
			z = T{"((as const " + s2 + ") " + z.S + ")", s2}
			s = s2
		}
		return Sc{T: z, Signed: signed}
	}
	switch u := t.Underlying().(type) {
	case *types.Struct:
		elems := make([]Value, u.NumFields())
		for i := 0; i < u.NumFields(); i++ {
			elems[i] = x.zeroDepth(u.Field(i).Type(), depth)
		}
		return Agg{elems, t}
	case *types.Array:
		if isBigArray(u) {
			return Big{Elem: x.zeroDepth(u.Elem(), depth+1), Typ: u.Elem(), N: u.Len()}
		}
		elems := make([]Value, u.Len())
		for i := range elems {
			elems[i] = x.zeroDepth(u.Elem(), depth)
		}
		return Agg{elems, t}
	case *types.Pointer:
		return Ptr{Nil: true}
	case *types.Slice:
		return Slc{Nil: true, Off: lit(64, 0), Len: lit(64, 0), Cap: lit(64, 0)}
	}
	if _, isIface := t.Underlying().(*types.Interface); isIface {
		c := tTrue
		return Opq{Typ: t, Tag: "zero", NilC: &c}
	}
	return Opq{Typ: t, Tag: "zero"}
}

// ---------------------------------------------------------------------------------------------
// reading and writing through paths

func (x *Exec) readPath(v Value, path []Sel) Value {
	for _, s := range path {
		switch a := v.(type) {
		case Agg:
			if s.Field >= 0 {
				v = a.Elems[s.Field]
				continue
			}
			if c, ok := constVal(s.Idx); ok {
				if int(c) >= len(a.Elems) {
					bail("constant index %d out of range %d", c, len(a.Elems))
				}
				v = a.Elems[c]
				continue
			}
			// symbolic index: mux
			idx := x.vc.def("ix", s.Idx)
			res := a.Elems[len(a.Elems)-1]
			for i := len(a.Elems) - 2; i >= 0; i-- {
				cond := mkEq(idx, lit(64, uint64(i)))
				r, ok := zipLeaves(a.Elems[i], res, func(p, q Sc) Sc {
					return Sc{T: mkIte(cond, p.T, q.T), Signed: p.Signed}
				})
				if !ok {
					bail("mux over array elements of differing shape")
				}
				res = r
			}
			v = res
		case Big:
			if s.Field >= 0 {
				bail("field selection on big array")
			}
			v = selectBig(a, s.Idx)
		default:
			bail("readPath: cannot select in %T", v)
		}
	}
	return v
}

func (x *Exec) writePath(v Value, path []Sel, val Value) Value {
	if len(path) == 0 {
		return val
	}
	s := path[0]
	switch a := v.(type) {
	case Agg:
		out := make([]Value, len(a.Elems))
		copy(out, a.Elems)
		if s.Field >= 0 {
			out[s.Field] = x.writePath(a.Elems[s.Field], path[1:], val)
			return Agg{out, a.Typ}
		}
		if c, ok := constVal(s.Idx); ok {
			if int(c) >= len(a.Elems) {
				bail("constant index %d out of range %d", c, len(a.Elems))
			}
			out[c] = x.writePath(a.Elems[c], path[1:], val)
			return Agg{out, a.Typ}
		}
		idx := x.vc.def("ix", s.Idx)
		for i := range a.Elems {
			cond := mkEq(idx, lit(64, uint64(i)))
			nv := x.writePath(a.Elems[i], path[1:], val)
			r, ok := zipLeaves(nv, a.Elems[i], func(p, q Sc) Sc {
				return Sc{T: mkIte(cond, p.T, q.T), Signed: q.Signed}
			})
			if !ok {
				bail("write with symbolic index: shape mismatch")
			}
			out[i] = r
		}
		return Agg{out, a.Typ}
	case Big:
		if s.Field >= 0 {
			bail("field selection on big array")
		}
		idx := x.vc.def("ix", s.Idx)
		old := selectBig(a, idx)
		return storeBig(a, idx, x.writePath(old, path[1:], val))
	}
	bail("writePath: cannot select in %T", v)
	return nil
}

func (x *Exec) load(st *State, p Ptr) Value {
	if p.Nil || p.Obj == nil {
		bail("load through nil pointer")
	}
	return x.readPath(x.contents(st, p.Obj), p.Path)
}

func (x *Exec) store(st *State, p Ptr, val Value) {
	if p.Nil || p.Obj == nil {
		bail("store through nil pointer")
	}
	st.mem[p.Obj] = x.writePath(x.contents(st, p.Obj), p.Path, x.nameValue("m", val))
}

// nameValue gives names to all compound leaf terms of v.
func (x *Exec) nameValue(hint string, v Value) Value {
	switch a := v.(type) {
	case Ptr:
		if len(a.Path) == 0 && a.May == nil {
			return v
		}
		path := make([]Sel, len(a.Path))
		for i, s := range a.Path {
			path[i] = s
			if s.Field < 0 {
				path[i].Idx = x.vc.def(hint, s.Idx)
			}
		}
		np := Ptr{Obj: a.Obj, Path: path, Nil: a.Nil}
		if a.May != nil {
			c := x.vc.def(hint, *a.May)
			np.May = &c
		}
		return np
	case Slc:
		a.Off = x.vc.def(hint, a.Off)
		a.Len = x.vc.def(hint, a.Len)
		a.Cap = x.vc.def(hint, a.Cap)
		return a
	}
	return mapLeaves(v, func(s Sc) Sc { return Sc{T: x.vc.def(hint, s.T), Signed: s.Signed} })
}

// mergeValues builds ite(cond, a, b) leafwise.
func mergeValues(cond T, a, b Value) (Value, bool) {
	mergingValues = true
	defer func() { mergingValues = false }()
	if _, isO := a.(Opq); isO {
		if _, isP := b.(Ptr); isP {
			return a, true
		}
	}
	return zipLeaves(a, b, func(p, q Sc) Sc { return Sc{T: mergeLeaf(cond, p.T, q.T), Signed: p.Signed} })
}

// defBody looks through one level of naming (set by the VC under construction).
var defBody func(name string) string

// mergeLeaf is ite(cond, p, q) with one normalisation: when one side is the other XOR-ed with
// something (the shape of `if c { h ^= x }`), the result is written h ^ ite(c, x, 0), which is the
// form the hash specifications use and lets XOR chains cancel syntactically.
func mergeLeaf(cond, p, q T) T {
	if p.S == q.S || p.W() == 0 || defBody == nil {
		return mkIte(cond, p, q)
	}
	xorOf := func(t T) (string, string, bool) {
		b := t.S
		if isAtom(t) {
			b = defBody(t.S)
		}
		if !strings.HasPrefix(b, "(bvxor ") {
			return "", "", false
		}
		parts := splitSexprs(b[len("(bvxor ") : len(b)-1])
		if len(parts) != 2 {
			return "", "", false
		}
		return parts[0], parts[1], true
	}
	if x, y, ok := xorOf(p); ok {
		if x == q.S {
			return bvbin("bvxor", q, mkIte(cond, T{y, p.Sort}, lit0(p.W())))
		}
		if y == q.S {
			return bvbin("bvxor", q, mkIte(cond, T{x, p.Sort}, lit0(p.W())))
		}
	}
	if x, y, ok := xorOf(q); ok {
		if x == p.S {
			return bvbin("bvxor", p, mkIte(cond, lit0(p.W()), T{y, p.Sort}))
		}
		if y == p.S {
			return bvbin("bvxor", p, mkIte(cond, lit0(p.W()), T{x, p.Sort}))
		}
	}
	return mkIte(cond, p, q)
}
