package main

import (
	"fmt"
	"go/ast"
	"go/types"
	"math/big"
	"strings"

	"golang.org/x/tools/go/ssa"
)

// Unit is one verification unit: a function under contract or a lemma.
type Unit struct {
	Name     string
	Kind     string // func | lemma
	Props    []string
	VC       *VC
	Err      string // structure error: the unit could not be translated
	Bounded  []string
	Contract *FuncContract
	Lemma    *Lemma
	Trusted  string
	Timeout  int
	Pkg      string
}

func (p *Program) newExec(unit string) *Exec {
	defer func() {}()
	x := &Exec{vc: newVC(unit), prog: p, inits: map[*Object]Value{}, globals: map[*ssa.Global]*Object{},
		ghosts: map[string]*Object{}, counters: map[string]int{}, params: map[string]Value{}, unit: unit}
	vcRef := x.vc
	defBody = func(name string) string { return vcRef.bodies[name] }
	for _, name := range sortedKeys(p.contracts.Ghosts) { // fixed order: queries are the same text on every run
		g := p.contracts.Ghosts[name]
		o := x.newObject(name, "ghost", nil)
		o.Lazy = true
		x.ghosts[name] = o
		x.inits[o] = x.ghostInitial(g)
	}
	return x
}

func (x *Exec) ghostInitial(g *GhostVar) Value {
	if strings.HasPrefix(g.Type, "$") {
		srt := g.Type[1:]
		if a, ok := sortAliasTable[srt]; ok {
			srt = a
		}
		return Sc{T: x.vc.input("ghost."+g.Name, srt)}
	}
	if obj := types.Universe.Lookup(g.Type); obj != nil {
		if sort, signed, ok := scalarSort(obj.Type()); ok {
			return Sc{T: x.vc.input("ghost."+g.Name, sort), Signed: signed}
		}
	}
	if tn := x.lookupTypeName(&frame{}, g.Type); tn != nil {
		return x.freshValue(tn.Type(), "ghost."+g.Name)
	}
	bail("ghost %s: unknown type %s", g.Name, g.Type)
	return nil
}

// verifyFunc builds the VC of one function against its contract.
func (p *Program) verifyFunc(fc *FuncContract) (u *Unit) {
	u = &Unit{Name: fc.Key, Kind: "func", Props: fc.Props, Contract: fc, Timeout: fc.Timeout, Pkg: fc.Pkg}
	fn := p.funcs[strings.SplitN(fc.Key, "@", 2)[0]]
	if fn == nil {
		u.Err = "function " + fc.Key + " not found in the program (renamed or removed?)"
		u.VC = newVC(fc.Key)
		return u
	}
	x := p.newExec(fc.Key)
	u.VC = x.vc
	// mechanical (non-SMT) frame checks over the static call tree
	if fc.NoGlobalWrites {
		sites := p.globalWrites(fn)
		goal := tTrue
		if len(sites) > 0 {
			goal = tFalse
		}
		x.vc.oblige(&Obligation{Name: fc.Key + "#globals.scan", Kind: "frame", Func: fc.Key, Guard: tTrue, Goal: goal,
			Src: "no package-level variable is written in the call tree (SSA scan): " + strings.Join(sites, "; ")})
		if !fc.HasSpec() && len(fc.Loops) == 0 && len(fc.ReadsOnly) == 0 && !fc.NoWrites {
			return u // a scan-only contract: the body is not executed symbolically
		}
	}
	if len(fc.ReadsOnly) > 0 || fc.NoWrites {
		var errs []string
		for prm, allowed := range fc.ReadsOnly {
			got, problem := p.readFields(fn, prm)
			if problem != "" {
				errs = append(errs, "reads-only "+prm+": "+problem)
			}
			ok := map[string]bool{}
			for _, a := range allowed {
				ok[a] = true
			}
			for f := range got {
				if !ok[f] {
					errs = append(errs, "reads-only "+prm+": field "+f+" is accessed")
				}
			}
		}
		if fc.NoWrites {
			if prob := p.writesOnlyLocals(fn, fc.WritesVia...); prob != "" {
				errs = append(errs, "no-writes: "+prob)
			}
		}
		name := fc.Key + "#frame.scan"
		goal := tTrue
		if len(errs) > 0 {
			goal = tFalse
		}
		x.vc.oblige(&Obligation{Name: name, Kind: "frame", Func: fc.Key, Guard: tTrue, Goal: goal,
			Src: "static read/write set of the call tree (SSA scan): " + strings.Join(errs, "; ")})
		if !fc.HasSpec() && len(fc.Loops) == 0 {
			return u
		}
	}
	defer func() {
		if r := recover(); r != nil {
			if se, ok := r.(structureError); ok {
				if fc.PrefixOnly && len(x.vc.Obls) > 0 {
					x.vc.note("PREFIX ONLY: translation of " + fc.Key + " stopped at: " + se.msg + " -- obligations generated before that point are checked, the rest of the function is not verified")
					u.Bounded = append(u.Bounded, fc.Key+": only the prefix before `"+se.msg+"` is verified")
					return
				}
				u.Err = se.msg
				return
			}
			panic(r)
		}
	}()
	x.top = fn
	x.fc = fc
	p.unitExtern = fc.AllowExtern
	x.nopanic = fc.NoPanic
	x.exact = fc.ExactConv
	// entry state
	st := State{reach: tTrue, mem: map[*Object]Value{}, env: map[ssa.Value]Value{}, names: map[string]Value{}}
	var args []Value
	for _, prm := range fn.Params {
		v := x.freshValue(prm.Type(), prm.Name())
		args = append(args, v)
		st.names[prm.Name()] = v
	}
	var binds []Value
	for _, fv := range fn.FreeVars {
		v := x.freshValue(fv.Type(), fv.Name())
		binds = append(binds, v)
		if _, isPtr := v.(Ptr); isPtr {
			st.names["&"+fv.Name()] = v
		} else {
			st.names[fv.Name()] = v
		}
	}
	fr := &frame{fn: fn, fc: fc, name: fc.Key, top: true}
	entry := st.clone()
	x.entry = &entry
	opts := &evalOpts{old: &entry, ghost: map[string]Value{}}
	for _, g := range fc.Ghosts {
		opts.ghost[g.Name] = x.nameValue(g.Name, x.evalExpr(fr, &entry, g.Expr, opts))
	}
	var pres []T
	for _, r := range fc.Requires {
		g := x.evalBoolClause(fr, &entry, r, opts)
		x.vc.assume(g, "requires "+r.Src)
		pres = append(pres, g)
		x.assumeInstances(fr, &entry, r, opts, tTrue, "requires")
	}
	// vacuity: the precondition must be satisfiable
	x.vc.oblige(&Obligation{Name: fc.Key + "#cover.pre", Kind: "cover", Func: fc.Key, Guard: tTrue, Goal: tTrue, Cover: true, Src: "requires are satisfiable"})
	// facts established by this function: their parameters are arbitrary ghost constants
	for _, fname := range fc.Establishes {
		lm := p.contracts.Lemmas[fname]
		if lm == nil || !lm.Fact {
			bail("establishes %s: no such fact", fname)
		}
		for _, prm := range lm.Params {
			sort, signed := lemmaParamSort(x, prm.Type)
			opts.ghost[prm.Name] = Sc{T: x.vc.input("ghost."+prm.Name, sort), Signed: signed}
		}
		// the fact's hypotheses constrain its (ghost) parameters: assumed from the start
		for _, h := range lm.Hyps {
			x.vc.assume(x.evalBoolClause(fr, &entry, h, opts), "hypothesis of fact "+lm.Name)
		}
	}
	// splits
	for _, s := range fc.Splits {
		if call, isCall := s.Expr.(*ast.CallExpr); isCall {
			if id, isId := call.Fun.(*ast.Ident); isId && id.Name == "bits" && len(call.Args) == 3 {
				// split bits(x, lo, hi) in 0..2^k-1: x must be an input constant
				base, okb := x.evalExpr(fr, &entry, call.Args[0], opts).(Sc)
				lo := int(x.evalExpr(fr, &entry, call.Args[1], opts).(Untyped).V.(*big.Int).Int64())
				hi := int(x.evalExpr(fr, &entry, call.Args[2], opts).(Untyped).V.(*big.Int).Int64())
				if !okb || !isAtom(base.T) || strings.HasPrefix(base.S, "#") {
					bail("split bits(x, lo, hi): x must be an input of the unit")
				}
				if s.Lo != 0 || s.Hi != (int64(1)<<uint(hi-lo+1))-1 {
					bail("split bits(x, %d, %d) must range over 0..%d", lo, hi, (int64(1)<<uint(hi-lo+1))-1)
				}
				x.vc.Splits = append(x.vc.Splits, SplitCase{Lo: s.Lo, Hi: s.Hi, Src: s.Src, BitsOf: base.S, BitHi: hi, BitLo: lo})
				continue
			}
		}
		v := x.evalExpr(fr, &entry, s.Expr, opts)
		sc, ok := v.(Sc)
		if !ok {
			bail("split expression is not scalar")
		}
		t := x.vc.def("split", sc.T)
		x.vc.Splits = append(x.vc.Splits, SplitCase{Term: t, Lo: s.Lo, Hi: s.Hi, Src: s.Src})
		var cases []T
		for k := s.Lo; k <= s.Hi; k++ {
			cases = append(cases, mkEq(t, litBig(t.W(), bigInt(k))))
		}
		x.vc.oblige(&Obligation{Name: fc.Key + "#split.exhaustive." + sanitize(s.Src), Kind: "split", Func: fc.Key, Guard: tTrue, Goal: mkOr(cases...), Src: s.Src})
	}
	for _, ul := range fc.Uses {
		if ul.At == "entry" {
			x.useLemma(fr, &entry, ul, opts)
		}
	}
	x.topOpts = opts
	if fc.Trusted != "" {
		// contract is assumed; nothing to verify besides satisfiability of the precondition
		u.Trusted = fc.Trusted
		return u
	}
	out, res, ok := x.runFunc(fn, args, binds, st, true)
	u.Bounded = x.bounded
	if !ok {
		// no reachable return: postconditions hold vacuously; report a cover failure instead
		x.vc.oblige(&Obligation{Name: fc.Key + "#cover.return", Kind: "cover", Func: fc.Key, Guard: tFalse, Goal: tTrue, Cover: true, Src: "some return is reachable"})
		return u
	}
	x.vc.oblige(&Obligation{Name: fc.Key + "#cover.return", Kind: "cover", Func: fc.Key, Guard: out.reach, Goal: tTrue, Cover: true, Src: "some return is reachable"})
	{
		// postconditions are evaluated over the entry names (parameters) plus the ghost loop counters
		nm := map[string]Value{}
		for k, val := range entry.names {
			nm[k] = val
		}
		for k, val := range out.names {
			if strings.HasPrefix(k, "#count") {
				nm[k] = val
			}
		}
		out.names = nm
	}
	opts.result = res
	// outputs for replay: result leaves and final contents of pointer parameters' pointees
	if res != nil {
		leaves(res, "result", func(path string, s Sc) {
			if !strings.Contains(path, "[*]") {
				x.vc.output(path, s.T)
			}
		})
	}
	for i, prm := range fn.Params {
		if ptr, isP := args[i].(Ptr); isP && ptr.Obj != nil {
			leaves(x.contents(&out, ptr.Obj), "post:"+prm.Name(), func(path string, s Sc) {
				if !strings.Contains(path, "[*]") && !strings.HasSuffix(path, ".off") && !strings.HasSuffix(path, ".cap") {
					x.vc.output(path, s.T)
				}
			})
		}
	}
	for _, ul := range fc.Uses {
		if ul.At == "exit" {
			x.useLemma(fr, &out, ul, opts)
		}
	}
	// stepping stones: each `assert` is proved at the (merged) exit state and then available to the
	// later asserts and to the postconditions
	for i, a := range fc.Asserts {
		g := x.evalGoalClause(fr, &out, a, opts)
		name := fmt.Sprintf("%s#assert%d", fc.Key, i+1)
		if a.Label != "" {
			name = fmt.Sprintf("%s#assert.%s", fc.Key, a.Label)
		}
		x.vc.oblige(&Obligation{Name: name, Kind: "assert", Func: fc.Key, Guard: out.reach, Goal: g, Src: a.Src, Pos: fmt.Sprintf("%s:%d", a.File, a.Line)})
		x.vc.assume(mkImplies(out.reach, x.evalBoolClause(fr, &out, a, opts)), "assert "+a.Src)
	}
	for i, e := range fc.Ensures {
		g := x.evalGoalClause(fr, &out, e, opts)
		name := fmt.Sprintf("%s#post%d", fc.Key, i+1)
		if e.Label != "" {
			name = fmt.Sprintf("%s#post.%s", fc.Key, e.Label)
		}
		if kf := openFinding(name); kf != nil && kf.InputClass != "" {
			ce, err := parseExprSrc(kf.InputClass)
			if err != nil {
				bail("known finding %s: %v", name, err)
			}
			class := x.evalBoolClause(fr, &entry, Clause{Expr: ce, Src: kf.InputClass, File: "known_findings.json"}, opts)
			x.vc.oblige(&Obligation{Name: name, Kind: "post", Func: fc.Key, Guard: out.reach, Goal: mkOr(class, g), Src: e.Src + "   [outside the known-finding input class: " + kf.InputClass + "]", Pos: fmt.Sprintf("%s:%d", e.File, e.Line)})
			x.vc.oblige(&Obligation{Name: name + "!known", Kind: "post", Func: fc.Key, Guard: mkAnd(out.reach, class), Goal: g, Src: e.Src + "   [on the known-finding input class]", Known: kf})
			continue
		}
		x.vc.oblige(&Obligation{Name: name, Kind: "post", Func: fc.Key, Guard: out.reach, Goal: g, Src: e.Src, Pos: fmt.Sprintf("%s:%d", e.File, e.Line), Slow: e.Slow})
	}
	for _, fname := range fc.Establishes {
		lm := p.contracts.Lemmas[fname]
		var hyps, concl []T
		for _, h := range lm.Hyps {
			hyps = append(hyps, x.evalBoolClause(fr, &out, h, opts))
		}
		for _, c := range lm.Concl {
			concl = append(concl, x.evalGoalClause(fr, &out, c, opts))
		}
		x.vc.oblige(&Obligation{Name: fc.Key + "#establishes." + lm.Name, Kind: "post", Func: fc.Key, Guard: mkAnd(append([]T{out.reach}, hyps...)...), Goal: mkAnd(concl...), Src: "fact " + lm.Name})
	}
	if fc.HasMod {
		x.frameObligations(fr, &entry, &out, fc, opts)
	}
	return u
}

// frameObligations: everything outside the modifies clauses is unchanged at exit.
func (x *Exec) frameObligations(fr *frame, entry, out *State, fc *FuncContract, opts *evalOpts) {
	// compute the allowed-to-change mask by havocking the modifies set in a copy of the entry state
	// and in a copy of the exit state with the same fresh values: if exit differs from entry only
	// inside the modifies set, both havocked copies are equal.
	a := entry.clone()
	b := out.clone()
	b.names = entry.names
	for _, m := range fc.Modifies {
		x.havocSame(fr, &a, &b, m, opts)
	}
	objs := map[*Object]bool{}
	for o := range out.mem {
		objs[o] = true
	}
	for o := range objs {
		if o.Kind == "alloc" || o.Kind == "fresh" || o.Kind == "track" {
			continue
		}
		va := x.contents(&a, o)
		vb := x.contents(&b, o)
		if sameValue(va, vb) {
			continue
		}
		eq, ok := valueEq(va, vb)
		if !ok {
			bail("frame check: object %s changed shape", o)
		}
		x.vc.oblige(&Obligation{Name: fmt.Sprintf("%s#frame.%s", fc.Key, sanitize(o.Name)), Kind: "frame", Func: fc.Key,
			Guard: out.reach, Goal: eq, Src: "only the modifies set changes (object " + o.Name + ")"})
	}
}

// havocSame overwrites the location denoted by m with the same fresh value in both states.
func (x *Exec) havocSame(fr *frame, a, b *State, m Clause, opts *evalOpts) {
	src := strings.TrimSpace(m.Src)
	if strings.HasSuffix(src, ".*") {
		e, err := parseExprSrc(strings.TrimSuffix(src, ".*"))
		if err != nil {
			bail("%v", err)
		}
		v := x.evalExpr(fr, a, e, opts)
		if _, isAgg := v.(Agg); isAgg {
			// a struct-valued variable or field: compare it through its address
			v = x.evalLValue(fr, a, e, opts)
		}
		switch p := v.(type) {
		case Ptr:
			cur := x.load(a, p)
			nv := x.havocLike(cur, "fr")
			x.store(a, p, nv)
			x.store(b, p, nv)
			x.sameSlices(a, b, nv)
			// slices whose header changed: the exit header's backing store too
			x.sameSlicesOf(a, b, x.load(b, p))
		case Slc:
			nv := x.havocLike(x.contents(a, p.Obj), "fr")
			a.mem[p.Obj] = nv
			b.mem[p.Obj] = nv
		}
		return
	}
	lv := x.evalLValue(fr, a, m.Expr, opts)
	cur := x.load(a, lv)
	nv := x.havocLike(cur, "fr")
	x.store(a, lv, nv)
	x.store(b, lv, nv)
	if s, ok := cur.(Slc); ok && s.Obj != nil {
		n2 := x.havocLike(x.contents(a, s.Obj), "fr")
		a.mem[s.Obj] = n2
		b.mem[s.Obj] = n2
	}
}

func (x *Exec) sameSlices(a, b *State, v Value) {
	switch t := v.(type) {
	case Agg:
		for _, e := range t.Elems {
			x.sameSlices(a, b, e)
		}
	case Slc:
		if t.Obj != nil {
			n2 := x.havocLike(x.contents(a, t.Obj), "fr")
			a.mem[t.Obj] = n2
			b.mem[t.Obj] = n2
		}
	}
}

func (x *Exec) sameSlicesOf(a, b *State, v Value) { x.sameSlices(a, b, v) }

// useLemma instantiates a proved lemma: assumes (hyps => concl) for the given arguments.
func (x *Exec) useLemma(fr *frame, st *State, ul UseLemma, opts *evalOpts) {
	lm := x.prog.contracts.Lemmas[ul.Lemma]
	if lm == nil {
		bail("use of unknown lemma %s", ul.Lemma)
	}
	if len(ul.Args) != len(lm.Params) {
		bail("lemma %s expects %d arguments", ul.Lemma, len(lm.Params))
	}
	b := map[string]Value{}
	for i, prm := range lm.Params {
		v := x.evalExpr(fr, st, ul.Args[i].Expr, opts)
		if u, ok := v.(Untyped); ok {
			sort, signed := lemmaParamSort(x, prm.Type)
			v = x.coerceTo(u, sort, signed)
		}
		if sc, ok := v.(Sc); ok && !strings.HasPrefix(prm.Type, "*") {
			// the argument takes the parameter's declared sort and signedness
			sort, signed := lemmaParamSort(x, prm.Type)
			if sc.Sort != sort {
				bail("lemma %s: argument %s has sort %s, expected %s", ul.Lemma, prm.Name, sc.Sort, sort)
			}
			sc.Signed = signed
			v = sc
		}
		b[prm.Name] = v
	}
	o2 := *opts
	o2.binds = append(append([]map[string]Value(nil), opts.binds...), b)
	lfr := &frame{name: "lemma " + lm.Name}
	if sp, ok := x.prog.byShort[lm.Pkg]; ok {
		lfr.fn = sp.Func("init")
	}
	empty := State{reach: tTrue, mem: st.mem, env: map[ssa.Value]Value{}, names: map[string]Value{}}
	var hyps, concl []T
	for _, h := range lm.Hyps {
		hyps = append(hyps, x.evalBoolClause(lfr, &empty, h, &o2))
	}
	for _, c := range lm.Concl {
		concl = append(concl, x.evalBoolClause(lfr, &empty, c, &o2))
	}
	x.vc.assume(mkImplies(mkAnd(hyps...), mkAnd(concl...)), "lemma "+ul.Lemma)
}

func lemmaParamSort(x *Exec, typ string) (string, bool) {
	if strings.HasPrefix(typ, "$") {
		if a, ok := sortAliasTable[typ[1:]]; ok {
			return a, false
		}
		return typ[1:], false
	}
	if obj := types.Universe.Lookup(typ); obj != nil {
		if sort, signed, ok := scalarSort(obj.Type()); ok {
			return sort, signed
		}
	}
	if tn := x.lookupTypeName(&frame{}, typ); tn != nil {
		if sort, signed, ok := scalarSort(tn.Type()); ok {
			return sort, signed
		}
	}
	bail("lemma parameter type %s is not scalar", typ)
	return "", false
}

// verifyLemma builds the VC of a lemma: forall params. hyps => concl.
func (p *Program) verifyLemma(lm *Lemma) (u *Unit) {
	name := lm.Pkg + "." + lm.Name
	u = &Unit{Name: "lemma " + name, Kind: "lemma", Props: lm.Props, Lemma: lm, Timeout: lm.Timeout, Pkg: lm.Pkg}
	x := p.newExec("lemma " + name)
	u.VC = x.vc
	defer func() {
		if r := recover(); r != nil {
			if se, ok := r.(structureError); ok {
				u.Err = se.msg
				return
			}
			panic(r)
		}
	}()
	st := State{reach: tTrue, mem: map[*Object]Value{}, env: map[ssa.Value]Value{}, names: map[string]Value{}}
	fr := &frame{name: "lemma " + name}
	if sp, ok := p.byShort[lm.Pkg]; ok {
		fr.fn = sp.Func("init")
	}
	for _, prm := range lm.Params {
		if strings.HasPrefix(prm.Type, "$") || types.Universe.Lookup(prm.Type) != nil {
			sort, signed := lemmaParamSort(x, prm.Type)
			st.names[prm.Name] = Sc{T: x.vc.input(prm.Name, sort), Signed: signed}
			continue
		}
		tn := x.lookupTypeName(fr, strings.TrimPrefix(prm.Type, "*"))
		if tn == nil {
			bail("lemma %s: unknown parameter type %s", name, prm.Type)
		}
		if strings.HasPrefix(prm.Type, "*") {
			st.names[prm.Name] = x.freshValue(types.NewPointer(tn.Type()), prm.Name)
		} else {
			st.names[prm.Name] = x.freshValue(tn.Type(), prm.Name)
		}
	}
	opts := &evalOpts{ghost: map[string]Value{}}
	for _, h := range lm.Hyps {
		x.vc.assume(x.evalBoolClause(fr, &st, h, opts), "hyp "+h.Src)
	}
	for _, ul := range lm.Uses {
		// only lemmas declared earlier (same file, smaller line) or in another package may be used:
		// the "uses" relation is then acyclic and every assumed instance has its own proof
		l2 := x.prog.contracts.Lemmas[ul.Lemma]
		if l2 == nil {
			bail("lemma %s uses unknown lemma %s", name, ul.Lemma)
		}
		if l2 == lm {
			// induction: an instance of the lemma itself at a strictly smaller, non-negative value of the
			// induction parameter (both facts are proof obligations of this unit)
			idx := -1
			for k, prm := range lm.Params {
				if prm.Name == lm.Induct {
					idx = k
				}
			}
			if lm.Induct == "" || idx < 0 {
				bail("lemma %s uses itself but declares no `induct PARAM`", name)
			}
			cur := st.names[lm.Induct].(Sc)
			av := x.evalExpr(fr, &st, ul.Args[idx].Expr, opts)
			if u, isU := av.(Untyped); isU {
				av = x.coerceTo(u, cur.Sort, true)
			}
			x.vc.oblige(&Obligation{Name: fmt.Sprintf("lemma %s#induct.decreases%d", name, len(x.vc.Obls)+1), Kind: "lemma", Func: name, Guard: tTrue,
				Goal: mkAnd(bvcmp("bvslt", av.(Sc).T, cur.T), bvcmp("bvsle", lit(cur.W(), 0), cur.T)),
				Src: "induction on " + lm.Induct + ": the instance is at a smaller value and the parameter is non-negative under the hypotheses"})
			x.useLemma(fr, &st, ul, opts)
			continue
		}
		if l2.Pkg == lm.Pkg && !(l2.File == lm.File && l2.Line < lm.Line) {
			bail("lemma %s may only use lemmas declared before it (%s is not)", name, ul.Lemma)
		}
		x.useLemma(fr, &st, ul, opts)
	}
	x.vc.oblige(&Obligation{Name: "lemma " + name + "#cover.hyp", Kind: "cover", Func: name, Guard: tTrue, Goal: tTrue, Cover: true, Src: "hypotheses are satisfiable"})
	for _, s := range lm.Splits {
		v := x.evalExpr(fr, &st, s.Expr, opts)
		sc := v.(Sc)
		t := x.vc.def("split", sc.T)
		x.vc.Splits = append(x.vc.Splits, SplitCase{Term: t, Lo: s.Lo, Hi: s.Hi, Src: s.Src})
		var cases []T
		for k := s.Lo; k <= s.Hi; k++ {
			cases = append(cases, mkEq(t, litBig(t.W(), bigInt(k))))
		}
		x.vc.oblige(&Obligation{Name: "lemma " + name + "#split.exhaustive." + sanitize(s.Src), Kind: "split", Func: name, Guard: tTrue, Goal: mkOr(cases...), Src: s.Src})
	}
	for i, c := range lm.Concl {
		g := x.evalGoalClause(fr, &st, c, opts)
		nm := fmt.Sprintf("lemma %s#concl%d", name, i+1)
		if c.Label != "" {
			nm = fmt.Sprintf("lemma %s#concl.%s", name, c.Label)
		}
		x.vc.oblige(&Obligation{Name: nm, Kind: "lemma", Func: name, Guard: tTrue, Goal: g, Src: c.Src, Pos: fmt.Sprintf("%s:%d", c.File, c.Line), Slow: c.Slow})
	}
	return u
}

// verifyScenario verifies a straight-line sequence of calls against requires/ensures.
func (p *Program) verifyScenario(sc *Scenario) (u *Unit) {
	fc := sc.FC
	u = &Unit{Name: fc.Key, Kind: "func", Props: fc.Props, Contract: fc, Timeout: fc.Timeout, Pkg: sc.Pkg}
	x := p.newExec(fc.Key)
	u.VC = x.vc
	defer func() {
		if r := recover(); r != nil {
			if se, ok := r.(structureError); ok {
				u.Err = se.msg
				return
			}
			panic(r)
		}
	}()
	x.fc = fc
	x.nopanic = fc.NoPanic
	fr := &frame{name: fc.Key, fc: fc, top: true}
	if sp, ok := p.byShort[sc.Pkg]; ok {
		fr.fn = sp.Func("init")
	}
	st := State{reach: tTrue, mem: map[*Object]Value{}, env: map[ssa.Value]Value{}, names: map[string]Value{}}
	for _, prm := range sc.Params {
		tname := strings.TrimPrefix(prm.Type, "*")
		var t types.Type
		if lb := strings.Index(tname, "["); lb > 0 && strings.HasSuffix(tname, "]") {
			// an instance of a generic type of this package: Name[arg] with one type argument
			if tn := x.lookupTypeName(fr, tname[:lb]); tn != nil {
				argName := tname[lb+1 : len(tname)-1]
				var at types.Type
				if o := types.Universe.Lookup(argName); o != nil {
					at = o.Type()
				} else if i := strings.Index(argName, "."); i >= 0 {
					if pk := p.packageByShortName(argName[:i]); pk != nil {
						if o := pk.Scope().Lookup(argName[i+1:]); o != nil {
							at = o.Type()
						}
					}
				}
				if at != nil {
					if inst, err := types.Instantiate(nil, tn.Type(), []types.Type{at}, false); err == nil {
						t = inst
					}
				}
			}
		} else if obj := types.Universe.Lookup(tname); obj != nil {
			t = obj.Type()
		} else if i := strings.Index(tname, "."); i >= 0 {
			if pk := p.packageByShortName(tname[:i]); pk != nil {
				if o := pk.Scope().Lookup(tname[i+1:]); o != nil {
					t = o.Type()
				}
			}
		} else if tn := x.lookupTypeName(fr, tname); tn != nil {
			t = tn.Type()
		}
		if t == nil {
			bail("scenario %s: unknown type %s", sc.Name, prm.Type)
		}
		if strings.HasPrefix(prm.Type, "*") {
			t = types.NewPointer(t)
		}
		st.names[prm.Name] = x.freshValue(t, prm.Name)
	}
	entry := st.clone()
	x.entry = &entry
	opts := &evalOpts{old: &entry, ghost: map[string]Value{}}
	for _, g := range fc.Ghosts {
		opts.ghost[g.Name] = x.nameValue(g.Name, x.evalExpr(fr, &entry, g.Expr, opts))
	}
	for _, r := range fc.Requires {
		x.vc.assume(x.evalBoolClause(fr, &entry, r, opts), "requires "+r.Src)
	}
	x.vc.oblige(&Obligation{Name: fc.Key + "#cover.pre", Kind: "cover", Func: fc.Key, Guard: tTrue, Goal: tTrue, Cover: true, Src: "requires are satisfiable"})
	for _, s := range fc.Splits {
		v := x.evalExpr(fr, &entry, s.Expr, opts)
		scv, ok := v.(Sc)
		if !ok {
			bail("split expression is not scalar")
		}
		t := x.vc.def("split", scv.T)
		x.vc.Splits = append(x.vc.Splits, SplitCase{Term: t, Lo: s.Lo, Hi: s.Hi, Src: s.Src})
		var cases []T
		for k := s.Lo; k <= s.Hi; k++ {
			cases = append(cases, mkEq(t, litBig(t.W(), bigInt(k))))
		}
		x.vc.oblige(&Obligation{Name: fc.Key + "#split.exhaustive." + sanitize(s.Src), Kind: "split", Func: fc.Key, Guard: tTrue, Goal: mkOr(cases...), Src: s.Src})
	}
	x.topOpts = opts
	for _, ul := range fc.Uses {
		if ul.At == "entry" {
			x.useLemma(fr, &entry, ul, opts)
		}
	}
	cur := st
	for i, step := range sc.Steps {
		call, ok := step.Call.Expr.(*ast.CallExpr)
		if !ok {
			bail("scenario step %d is not a call", i+1)
		}
		fn, args := x.resolveCall(fr, &cur, call, opts)
		var res Value
		name := shortFuncName(fn)
		cfc := p.contracts.Funcs[name]
		if !step.Inline && cfc != nil && cfc.HasSpec() {
			res = x.applyContract(fr, &cur, fn, cfc, args, nil)
		} else {
			out, r, ok := x.runFunc(fn, args, nil, cur, false)
			if !ok {
				bail("scenario step %d never returns", i+1)
			}
			out.names = cur.names
			cur = out
			res = r
		}
		if step.Bind != "" {
			cur.names[step.Bind] = res
		}
	}
	x.vc.oblige(&Obligation{Name: fc.Key + "#cover.end", Kind: "cover", Func: fc.Key, Guard: cur.reach, Goal: tTrue, Cover: true, Src: "the end of the scenario is reachable"})
	for i, e := range fc.Ensures {
		g := x.evalGoalClause(fr, &cur, e, opts)
		name := fmt.Sprintf("%s#post%d", fc.Key, i+1)
		if e.Label != "" {
			name = fmt.Sprintf("%s#post.%s", fc.Key, e.Label)
		}
		x.vc.oblige(&Obligation{Name: name, Kind: "post", Func: fc.Key, Guard: cur.reach, Goal: g, Src: e.Src, Pos: fmt.Sprintf("%s:%d", e.File, e.Line), Slow: e.Slow})
	}
	u.Bounded = x.bounded
	return u
}

// resolveCall resolves `recv.Method(args)` / `pkg.Func(args)` / `Func(args)` to an SSA function and
// evaluated arguments (receiver first).
func (x *Exec) resolveCall(fr *frame, st *State, call *ast.CallExpr, opts *evalOpts) (*ssa.Function, []Value) {
	var args []Value
	evalArgs := func() {
		for _, a := range call.Args {
			args = append(args, x.evalExpr(fr, st, a, opts))
		}
	}
	coerce := func(f *ssa.Function) {
		for i, a := range args {
			if u, ok := a.(Untyped); ok {
				sort, signed, ok2 := scalarSort(f.Params[i].Type())
				if !ok2 {
					bail("untyped argument for non-scalar parameter")
				}
				args[i] = x.coerceTo(u, sort, signed)
			}
		}
	}
	switch f := call.Fun.(type) {
	case *ast.Ident:
		var fn *ssa.Function
		if fr.fn != nil && fr.fn.Pkg != nil {
			fn = fr.fn.Pkg.Func(f.Name)
		}
		if fn == nil {
			fn = x.prog.funcAnywhere(f.Name)
		}
		if fn == nil {
			bail("unknown function %s", f.Name)
		}
		evalArgs()
		coerce(fn)
		return fn, args
	case *ast.SelectorExpr:
		if id, ok := f.X.(*ast.Ident); ok {
			if _, isName := st.names[id.Name]; !isName {
				if pkg := x.prog.packageByShortName(id.Name); pkg != nil {
					if o, ok := pkg.Scope().Lookup(f.Sel.Name).(*types.Func); ok {
						fn := x.prog.ssaProg.FuncValue(o)
						evalArgs()
						coerce(fn)
						return fn, args
					}
				}
			}
		}
		recv := x.evalExpr(fr, st, f.X, opts)
		fn := x.prog.methodFor(recv, f.Sel.Name)
		if fn == nil {
			bail("cannot resolve method %s", f.Sel.Name)
		}
		if _, isPtrRecv := fn.Signature.Recv().Type().(*types.Pointer); !isPtrRecv {
			if p, isP := recv.(Ptr); isP {
				recv = x.load(st, p)
			}
		}
		args = append(args, recv)
		evalArgs()
		coerce(fn)
		return fn, args
	}
	bail("unsupported call form")
	return nil, nil
}

func openFinding(obl string) *KnownFinding {
	for i := range knownFindings {
		k := &knownFindings[i]
		if k.Status == "open" && k.Obligation == obl {
			return k
		}
	}
	return nil
}

// assumeInstances assumes the clause again for every declared instantiation of a ghost it mentions
// (see GhostInstance).  The instance expression is evaluated in the state where the clause is assumed;
// an instance whose expression cannot be evaluated there (names not in scope) is skipped.
func (x *Exec) assumeInstances(fr *frame, st *State, cl Clause, opts *evalOpts, guard T, what string) {
	if x.fc == nil {
		return
	}
	for _, gi := range x.fc.Instances {
		if !mentionsAny(x, cl.Expr, gi.Ghosts) {
			continue
		}
		for _, row := range gi.Rows {
			if o2 := x.instanceOpts(fr, st, gi, row, opts, fr, st); o2 != nil {
				func() {
					defer recoverStructure()
					g := x.evalBoolClause(fr, st, cl, o2)
					x.vc.assume(mkImplies(guard, g), what+" instance "+strings.Join(gi.Ghosts, ",")+" := "+row[0].Src)
				}()
			}
		}
	}
}

func recoverStructure() {
	if r := recover(); r != nil {
		if _, ok := r.(structureError); !ok {
			panic(r)
		}
	}
}

func mentionsAny(x *Exec, e ast.Expr, names []string) bool {
	for _, n := range names {
		if mentionsIdentDeep(x, e, n) {
			return true
		}
	}
	return false
}

// instanceOpts evaluates one instance row (in frame ifr / state ist with the plain options) and returns
// evaluation options in which the ghosts are bound to those values; nil if a term cannot be evaluated
// at this point (names not in scope).
func (x *Exec) instanceOpts(ifr *frame, ist *State, gi GhostInstance, row []Clause, iopts *evalOpts, gfr *frame, gst *State) (res *evalOpts) {
	defer func() {
		if r := recover(); r != nil {
			if _, ok := r.(structureError); !ok {
				panic(r)
			}
			res = nil
		}
	}()
	o2 := *iopts
	o2.ghost = map[string]Value{}
	for k, v := range iopts.ghost {
		o2.ghost[k] = v
	}
	for k, gname := range gi.Ghosts {
		iv := x.evalExpr(ifr, ist, row[k].Expr, iopts)
		cur, has := iopts.ghost[gname]
		if !has {
			cur = x.evalIdent(gfr, gst, gname, iopts)
		}
		if sc, ok := cur.(Sc); ok {
			if u, isU := iv.(Untyped); isU {
				iv = x.coerceTo(u, sc.Sort, sc.Signed)
			}
			if isc, ok2 := iv.(Sc); ok2 && isc.Sort != sc.Sort {
				if sc.W() == 0 || isc.W() == 0 {
					bail("instance of ghost %s has sort %s, expected %s", gname, isc.Sort, sc.Sort)
				}
				iv = Sc{T: resize(isc.T, sc.W(), isc.Signed), Signed: sc.Signed}
			}
		}
		o2.ghost[gname] = iv
	}
	return &o2
}

// mentionsIdentDeep: the identifier occurs in the expression or in a macro it expands to.
func mentionsIdentDeep(x *Exec, e ast.Expr, name string) bool {
	seen := map[string]bool{}
	var rec func(e ast.Expr) bool
	rec = func(e ast.Expr) bool {
		found := false
		ast.Inspect(e, func(n ast.Node) bool {
			if found {
				return false
			}
			if id, ok := n.(*ast.Ident); ok {
				if id.Name == name {
					found = true
					return false
				}
				if m := x.prog.contracts.Macros[id.Name]; m != nil && !seen[id.Name] {
					seen[id.Name] = true
					if rec(m.Body) {
						found = true
					}
				}
			}
			return true
		})
		return found
	}
	return rec(e)
}

// loopFrameObligations: at a back edge of a loop with an explicit `modifies` list (or `modifies
// nothing`) everything that existed at the loop head and is not covered by the list must be unchanged
// by the iteration - otherwise the havoc at the head would be too weak and the invariant proof unsound.
func (x *Exec) loopFrameObligations(fr *frame, head, back *State, lc *LoopContract, opts *evalOpts, loopName string, edge int) {
	a := head.clone()
	b := back.clone()
	b.names = head.names
	for _, m := range lc.Modifies {
		x.havocSame(fr, &a, &b, m, opts)
	}
	for o := range head.mem {
		if o.Kind == "fresh" || o.Kind == "track" {
			continue
		}
		if _, still := back.mem[o]; !still {
			continue
		}
		va := x.contents(&a, o)
		vb := x.contents(&b, o)
		if sameValue(va, vb) {
			continue
		}
		eq, ok := valueEq(va, vb)
		if !ok {
			bail("loop frame check: object %s changed shape", o.Name)
		}
		x.vc.oblige(&Obligation{Name: fmt.Sprintf("%s.frame.%s@%d", loopName, sanitize(o.Name), edge), Kind: "frame", Func: fr.name,
			Guard: back.reach, Goal: eq, Src: "the iteration changes only the loop's modifies set (object " + o.Name + ")"})
	}
}
