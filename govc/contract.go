package main

import (
	"fmt"
	"go/ast"
	"go/parser"
	"os"
	"path/filepath"
	"regexp"
	"sort"
	"strconv"
	"strings"
)

// Clause is one contract expression.
type Clause struct {
	Expr  ast.Expr
	Src   string
	Slow  bool   // label ends in '*': checked in the thorough tier only
	Label string // optional name: `ensures [EnPassant] expr`
	File  string
	Line  int
}

type Split struct {
	Clause
	Lo, Hi int64
}

type LoopContract struct {
	Invariants   []Clause
	Unroll       int
	UnrollAssume bool // bounded mode: no unwinding assertion
	Modifies     []Clause
	ModNothing   bool
}

type GhostBind struct {
	Name string
	Clause
}

type UseLemma struct {
	Lemma string
	Args  []Clause
	At    string // "entry" | "exit" | "loopN"
}

type FuncContract struct {
	Pkg       string // short package name, e.g. "board"
	Key       string // e.g. (*board.Board).addPiece
	Props     []string
	Requires  []Clause
	Ensures   []Clause
	Modifies  []Clause
	HasMod    bool
	NoPanic   bool
	ExactConv bool
	Trusted   string // non-empty: contract is assumed, with this justification
	Inline    bool
	Splits    []Split
	Loops     map[int]*LoopContract
	Ghosts    []GhostBind
	Asserts   []Clause
	Uses      []UseLemma
	File      string
	Line      int
	Timeout   int
	Bounded   string // non-empty: this unit is a bounded check with the stated bound
	Establishes []string
	ThoroughOnly bool
	Abstract     bool // the contract is used at every call, even inside body(...) (the function stays uninterpreted)
	CbModifies   []Clause // what a call through a function value (callback) may modify
	CbEnsures    []Clause // what is assumed after such a call (the callbacks' contract)
	CbRequires   []Clause // what must hold before such a call
	PrefixOnly   bool // obligations are collected until the translation leaves the subset; the rest is reported as not verified
	View         string
	Views        []string          // alternative (abstract) contracts of callees this unit is verified against
	ReadsOnly    map[string][]string // parameter name -> the only fields of its pointee the call tree may read
	NoWrites     bool                // the call tree performs no store to non-local memory (mechanical scan)
	WritesVia    []string            // ... except inside these functions (mechanical scan)
	NoGlobalWrites bool              // no package-level variable is written anywhere in the call tree (mechanical scan)
	Instances    []GhostInstance     // extra instantiations of ghost-parametric assumptions
	AtReturn     map[int][]Clause // ordinal (source order) of a return statement -> condition that must hold there
	AtStore      map[string][]Clause // field name -> condition on the stored `value` at every store to that field
	AtCall       map[string][]Clause // callee name -> conditions that must hold in the caller right before each call
	AtCallSets   map[string][]GhostBind // callee name -> ghost assignments executed right before the call
	AllowExtern  []string
	CallersInline bool     // at call sites the body is inlined (exact state) and the listed ensures are assumed as facts
	InlineFacts   []string // labels of the ensures clauses assumed after inlining
	Opaque    []string
}

func (fc *FuncContract) HasSpec() bool {
	return len(fc.Requires) > 0 || len(fc.Ensures) > 0 || fc.HasMod || fc.Trusted != ""
}

// Lemma is a pure SMT obligation: forall params. body
// GhostInstance: clauses mentioning the ghost constant Ghost are schemas (they are proved for an
// arbitrary value of the ghost, hence hold for every value); wherever such a clause is assumed it is
// additionally assumed with the ghost replaced by each of the expressions, evaluated at that point.
type GhostInstance struct {
	Ghosts []string
	Rows   [][]Clause // each row gives one expression per ghost
}

type Lemma struct {
	Pkg    string
	Name   string
	Props  []string
	Params []LemmaParam
	Hyps   []Clause
	Concl  []Clause
	Splits []Split
	Uses   []UseLemma // instances of earlier lemmas assumed in the proof
	Induct string     // parameter the lemma is proved by induction on (allows instances of itself at smaller values)
	File   string
	Line   int
	Timeout int
	Axiom  bool   // assumed without proof (definitional); listed in the trusted base
	Fact   bool   // justified by an init function's `establishes`, not by an SMT query
	EstBy  string // function that establishes the fact
}

// Scenario is a straight-line sequence of calls verified as a unit (e.g. make followed by undo).
type Scenario struct {
	Pkg    string
	Name   string
	Params []LemmaParam
	FC     *FuncContract // requires / ensures / props / splits / ghosts / opaque reuse the function-contract fields
	Steps  []ScenarioStep
}

type ScenarioStep struct {
	Bind   string
	Inline bool
	Call   Clause
}

type LemmaParam struct {
	Name string
	Type string // Go type name (uint64, int8, bool, ...) or SMT sort prefixed with '$'
}

type Macro struct {
	Name   string
	Params []string
	Body   ast.Expr
	Src    string
	Pkg    string
}

type GhostVar struct {
	Name string
	Type string // Go basic type name or $sort
	Pkg  string
}

// Contracts is everything parsed from the contract files.
type Contracts struct {
	Funcs   map[string]*FuncContract
	Lemmas  map[string]*Lemma
	Macros  map[string]*Macro
	Ghosts  map[string]*GhostVar
	Imports []string // spec files (relative to /verif/spec)
	ImportsByPkg map[string][]string
	Externs map[string]*FuncContract // assumed contracts of functions without verified bodies
	Files   []string
	Writers map[string][]string // global -> functions allowed to write it
	Scenarios map[string]*Scenario
	Scan    []string // assume/trusted/extern occurrences for the evidence report
}

func newContracts() *Contracts {
	return &Contracts{Funcs: map[string]*FuncContract{}, Lemmas: map[string]*Lemma{}, Macros: map[string]*Macro{},
		Ghosts: map[string]*GhostVar{}, Externs: map[string]*FuncContract{}, Writers: map[string][]string{}, Scenarios: map[string]*Scenario{}, ImportsByPkg: map[string][]string{}}
}

var kwRe = regexp.MustCompile(`^(import|define|ghost|func|extern|lemma|axiom|fact|scenario|do|establishes|writers|callers-inline|thorough-only|prefix-only|abstract|at-store|at-return|reads-only|no-writes|writes-only-via|instances|induct|no-global-writes|callback-modifies|callback-ensures|callback-requires|views|at-call|allow-extern|props|requires|ensures|modifies|nopanic|exact-conversions|trusted|inline|split|loop|assert|use|hyp|concl|timeout|bounded|opaque)\b`)

func parseExprSrc(src string) (ast.Expr, error) {
	// ==> is written as implies(); allow `a ==> b` at top level as sugar, right-assoc
	src = strings.TrimSpace(src)
	if i := topLevelIndex(src, "==>"); i >= 0 {
		l, err := parseExprSrc(src[:i])
		if err != nil {
			return nil, err
		}
		r, err := parseExprSrc(src[i+3:])
		if err != nil {
			return nil, err
		}
		return &ast.CallExpr{Fun: ast.NewIdent("implies"), Args: []ast.Expr{l, r}}, nil
	}
	e, err := parser.ParseExpr(src)
	if err != nil {
		return nil, fmt.Errorf("cannot parse %q: %v", src, err)
	}
	return e, nil
}

func topLevelIndex(s, tok string) int {
	depth := 0
	for i := 0; i+len(tok) <= len(s); i++ {
		switch s[i] {
		case '(', '[', '{':
			depth++
		case ')', ']', '}':
			depth--
		}
		if depth == 0 && strings.HasPrefix(s[i:], tok) {
			return i
		}
	}
	return -1
}

type rawClause struct {
	kw, text string
	line     int
}

// LoadContractFile parses one comment-only contract file.
func (cs *Contracts) LoadContractFile(path string, pkgShort string) error {
	data, err := os.ReadFile(path)
	if err != nil {
		return err
	}
	cs.Files = append(cs.Files, path)
	var raws []rawClause
	for i, ln := range strings.Split(string(data), "\n") {
		t := strings.TrimSpace(ln)
		if !strings.HasPrefix(t, "//@") {
			continue
		}
		t = strings.TrimSpace(t[3:])
		if t == "" || strings.HasPrefix(t, "#") {
			continue
		}
		// strip trailing comment introduced by " //"
		if j := strings.Index(t, " // "); j >= 0 {
			t = strings.TrimSpace(t[:j])
		}
		if m := kwRe.FindString(t); m != "" {
			raws = append(raws, rawClause{m, strings.TrimSpace(t[len(m):]), i + 1})
		} else if len(raws) > 0 {
			raws[len(raws)-1].text += " " + t
		} else {
			return fmt.Errorf("%s:%d: text before any keyword", path, i+1)
		}
	}
	var cur *FuncContract
	var curLemma *Lemma
	var curLoop *LoopContract
	var curScenario *Scenario
	mkClause := func(r rawClause) (Clause, error) {
		txt := r.text
		label := ""
		if strings.HasPrefix(txt, "[") {
			if j := strings.Index(txt, "]"); j > 0 {
				label = txt[1:j]
				txt = strings.TrimSpace(txt[j+1:])
			}
		}
		ptxt := txt
		if r.kw == "modifies" && strings.HasSuffix(ptxt, ".*") {
			ptxt = strings.TrimSuffix(ptxt, ".*")
		}
		e, err := parseExprSrc(ptxt)
		if err != nil {
			return Clause{}, fmt.Errorf("%s:%d: %v", path, r.line, err)
		}
		slow := false
		if strings.HasSuffix(label, "*") {
			slow = true
			label = strings.TrimSuffix(label, "*")
		}
		return Clause{Expr: e, Src: txt, Label: label, Slow: slow, File: path, Line: r.line}, nil
	}
	for _, r := range raws {
		switch r.kw {
		case "import":
			for _, f := range strings.Fields(r.text) {
				cs.ImportsByPkg[pkgShort] = append(cs.ImportsByPkg[pkgShort], f)
				found := false
				for _, g := range cs.Imports {
					if g == f {
						found = true
					}
				}
				if !found {
					cs.Imports = append(cs.Imports, f)
				}
			}
		case "define":
			// define name(a, b) = expr
			eq := strings.Index(r.text, "=")
			head := strings.TrimSpace(r.text[:eq])
			body := strings.TrimSpace(r.text[eq+1:])
			lp := strings.Index(head, "(")
			name := head
			var params []string
			if lp >= 0 {
				name = strings.TrimSpace(head[:lp])
				ps := strings.TrimSuffix(strings.TrimSpace(head[lp+1:]), ")")
				for _, p := range strings.Split(ps, ",") {
					if p = strings.TrimSpace(p); p != "" {
						params = append(params, p)
					}
				}
			}
			e, err := parseExprSrc(body)
			if err != nil {
				return fmt.Errorf("%s:%d: %v", path, r.line, err)
			}
			cs.Macros[name] = &Macro{Name: name, Params: params, Body: e, Src: body, Pkg: pkgShort}
		case "ghost":
			if cur != nil && strings.Contains(r.text, "=") {
				eq := strings.Index(r.text, "=")
				c, err := mkClause(rawClause{"ghost", strings.TrimSpace(r.text[eq+1:]), r.line})
				if err != nil {
					return err
				}
				cur.Ghosts = append(cur.Ghosts, GhostBind{Name: strings.TrimSpace(r.text[:eq]), Clause: c})
			} else {
				f := strings.Fields(r.text)
				if len(f) != 2 {
					return fmt.Errorf("%s:%d: ghost NAME TYPE", path, r.line)
				}
				cs.Ghosts[f[0]] = &GhostVar{Name: f[0], Type: f[1], Pkg: pkgShort}
			}
		case "func", "extern":
			cur = &FuncContract{Pkg: pkgShort, Loops: map[int]*LoopContract{}, File: path, Line: r.line}
			curLemma = nil
			curLoop = nil
			viewName := ""
			ftxt := r.text
			if i := strings.Index(ftxt, " view "); i >= 0 {
				viewName = strings.TrimSpace(ftxt[i+6:])
				ftxt = strings.TrimSpace(ftxt[:i])
			}
			cur.Key = normalizeFuncName(ftxt, pkgShort)
			if viewName != "" {
				cur.Key += "@" + viewName
				cur.View = viewName
			}
			if r.kw == "extern" {
				cur.Trusted = "extern"
				cs.Externs[cur.Key] = cur
				cs.Scan = append(cs.Scan, fmt.Sprintf("%s:%d: extern %s (assumed contract, body not verified)", filepath.Base(path), r.line, cur.Key))
			} else {
				if _, dup := cs.Funcs[cur.Key]; dup {
					return fmt.Errorf("%s:%d: duplicate contract for %s", path, r.line, cur.Key)
				}
				cs.Funcs[cur.Key] = cur
			}
		case "scenario":
			lp := strings.Index(r.text, "(")
			name := strings.TrimSpace(r.text[:lp])
			ps := strings.TrimSuffix(strings.TrimSpace(r.text[lp+1:]), ")")
			sc := &Scenario{Pkg: pkgShort, Name: name}
			for _, p := range strings.Split(ps, ",") {
				f := strings.Fields(p)
				if len(f) == 2 {
					sc.Params = append(sc.Params, LemmaParam{f[0], f[1]})
				}
			}
			cur = &FuncContract{Pkg: pkgShort, Loops: map[int]*LoopContract{}, File: path, Line: r.line, Key: "scenario " + pkgShort + "." + name}
			sc.FC = cur
			curScenario = sc
			curLemma = nil
			cs.Scenarios[pkgShort+"."+name] = sc
		case "do":
			if curScenario == nil || cur != curScenario.FC {
				return fmt.Errorf("%s:%d: do outside scenario", path, r.line)
			}
			txt := r.text
			st := ScenarioStep{}
			if i := strings.Index(txt, ":="); i >= 0 {
				st.Bind = strings.TrimSpace(txt[:i])
				txt = strings.TrimSpace(txt[i+2:])
			}
			if strings.HasPrefix(txt, "inline ") {
				st.Inline = true
				txt = strings.TrimSpace(txt[7:])
			}
			c, err := mkClause(rawClause{"do", txt, r.line})
			if err != nil {
				return err
			}
			st.Call = c
			curScenario.Steps = append(curScenario.Steps, st)
		case "views":
			cur.Views = append(cur.Views, strings.Fields(r.text)...)
		case "allow-extern":
			cur.AllowExtern = append(cur.AllowExtern, strings.Fields(r.text)...)
		case "reads-only":
			i := strings.Index(r.text, ":")
			if i < 0 {
				return fmt.Errorf("%s:%d: reads-only PARAM: fields", path, r.line)
			}
			if cur.ReadsOnly == nil {
				cur.ReadsOnly = map[string][]string{}
			}
			cur.ReadsOnly[strings.TrimSpace(r.text[:i])] = strings.Fields(r.text[i+1:])
		case "instances":
			// instances G1, G2: e1, e2; e1', e2'   (simultaneous instantiation of the listed ghosts)
			ci := strings.Index(r.text, ":")
			if ci < 0 || cur == nil {
				return fmt.Errorf("%s:%d: instances GHOST[, GHOST]: expr[, expr]; ... (inside a func contract)", path, r.line)
			}
			gi := GhostInstance{}
			for _, g := range strings.Split(r.text[:ci], ",") {
				gi.Ghosts = append(gi.Ghosts, strings.TrimSpace(g))
			}
			for _, part := range strings.Split(r.text[ci+1:], ";") {
				tup, err := mkClause(rawClause{"instances", "tuple(" + strings.TrimSpace(part) + ")", r.line})
				if err != nil {
					return err
				}
				call, ok := tup.Expr.(*ast.CallExpr)
				if !ok || len(call.Args) != len(gi.Ghosts) {
					return fmt.Errorf("%s:%d: instance %q does not give one expression per ghost", path, r.line, part)
				}
				var row []Clause
				for _, a := range call.Args {
					for _, g := range gi.Ghosts {
						if mentionsIdent(a, g) {
							return fmt.Errorf("%s:%d: instance expression mentions the ghost %s itself", path, r.line, g)
						}
					}
					row = append(row, Clause{Expr: a, Src: strings.TrimSpace(part), File: path, Line: r.line})
				}
				gi.Rows = append(gi.Rows, row)
			}
			cur.Instances = append(cur.Instances, gi)
		case "induct":
			if curLemma == nil {
				return fmt.Errorf("%s:%d: induct PARAM belongs to a lemma", path, r.line)
			}
			curLemma.Induct = strings.TrimSpace(r.text)
		case "no-global-writes":
			cur.NoGlobalWrites = true
		case "no-writes":
			cur.NoWrites = true
		case "writes-only-via":
			cur.NoWrites = true
			cur.WritesVia = append(cur.WritesVia, strings.Fields(r.text)...)
		case "at-return":
			// at-return N requires EXPR
			f := strings.SplitN(r.text, " requires ", 2)
			if len(f) != 2 {
				return fmt.Errorf("%s:%d: at-return N requires EXPR", path, r.line)
			}
			n, err := strconv.Atoi(strings.TrimSpace(f[0]))
			if err != nil {
				return fmt.Errorf("%s:%d: at-return N requires EXPR", path, r.line)
			}
			c, err := mkClause(rawClause{"at-return", strings.TrimSpace(f[1]), r.line})
			if err != nil {
				return err
			}
			if cur.AtReturn == nil {
				cur.AtReturn = map[int][]Clause{}
			}
			cur.AtReturn[n] = append(cur.AtReturn[n], c)
		case "at-store":
			f := strings.SplitN(r.text, " requires ", 2)
			if len(f) != 2 {
				return fmt.Errorf("%s:%d: at-store FIELD requires EXPR", path, r.line)
			}
			c, err := mkClause(rawClause{"at-store", strings.TrimSpace(f[1]), r.line})
			if err != nil {
				return err
			}
			if cur.AtStore == nil {
				cur.AtStore = map[string][]Clause{}
			}
			cur.AtStore[strings.TrimSpace(f[0])] = append(cur.AtStore[strings.TrimSpace(f[0])], c)
		case "at-call":
			// at-call CALLEE sets GHOST = EXPR   (a ghost assignment executed right before the call)
			if fs := strings.SplitN(r.text, " sets ", 2); len(fs) == 2 && !strings.Contains(fs[0], " requires ") {
				eq := strings.Index(fs[1], "=")
				if eq < 0 {
					return fmt.Errorf("%s:%d: at-call CALLEE sets GHOST = EXPR", path, r.line)
				}
				cl, err := mkClause(rawClause{"at-call", strings.TrimSpace(fs[1][eq+1:]), r.line})
				if err != nil {
					return err
				}
				if cur.AtCallSets == nil {
					cur.AtCallSets = map[string][]GhostBind{}
				}
				k := strings.TrimSpace(fs[0])
				cur.AtCallSets[k] = append(cur.AtCallSets[k], GhostBind{Name: strings.TrimSpace(fs[1][:eq]), Clause: cl})
				break
			}
			// at-call CALLEE requires EXPR
			f := strings.SplitN(r.text, " requires ", 2)
			if len(f) != 2 {
				return fmt.Errorf("%s:%d: at-call CALLEE requires EXPR", path, r.line)
			}
			c, err := mkClause(rawClause{"at-call", strings.TrimSpace(f[1]), r.line})
			if err != nil {
				return err
			}
			if cur.AtCall == nil {
				cur.AtCall = map[string][]Clause{}
			}
			cur.AtCall[strings.TrimSpace(f[0])] = append(cur.AtCall[strings.TrimSpace(f[0])], c)
		case "callback-modifies":
			for _, part := range splitTop(r.text, ',') {
				c, err := mkClause(rawClause{"modifies", part, r.line})
				if err != nil {
					return err
				}
				cur.CbModifies = append(cur.CbModifies, c)
			}
		case "callback-ensures", "callback-requires":
			c, err := mkClause(r)
			if err != nil {
				return err
			}
			if r.kw == "callback-ensures" {
				cur.CbEnsures = append(cur.CbEnsures, c)
			} else {
				cur.CbRequires = append(cur.CbRequires, c)
			}
		case "abstract":
			cur.Abstract = true
		case "prefix-only":
			cur.PrefixOnly = true
		case "thorough-only":
			if cur != nil {
				cur.ThoroughOnly = true
			}
		case "callers-inline":
			cur.CallersInline = true
			cur.InlineFacts = strings.Fields(r.text)
		case "establishes":
			if cur == nil {
				return fmt.Errorf("%s:%d: establishes outside func", path, r.line)
			}
			for _, f := range strings.Fields(r.text) {
				cur.Establishes = append(cur.Establishes, pkgShort+"."+f)
			}
		case "writers":
			// writers GLOBAL: f1 f2
			i := strings.Index(r.text, ":")
			g := pkgShort + "." + strings.TrimSpace(r.text[:i])
			for _, f := range strings.Fields(r.text[i+1:]) {
				cs.Writers[g] = append(cs.Writers[g], normalizeFuncName(f, pkgShort))
			}
		case "lemma", "fact", "axiom":
			// lemma name(p type, q type)
			lp := strings.Index(r.text, "(")
			if lp < 0 {
				return fmt.Errorf("%s:%d: lemma NAME(params)", path, r.line)
			}
			name := strings.TrimSpace(r.text[:lp])
			ps := strings.TrimSuffix(strings.TrimSpace(r.text[lp+1:]), ")")
			lm := &Lemma{Pkg: pkgShort, Name: name, File: path, Line: r.line, Fact: r.kw == "fact", Axiom: r.kw == "axiom"}
			if lm.Axiom {
				cs.Scan = append(cs.Scan, fmt.Sprintf("%s:%d: axiom %s.%s (assumed, not proved)", filepath.Base(path), r.line, pkgShort, name))
			}
			for _, p := range strings.Split(ps, ",") {
				f := strings.Fields(p)
				if len(f) == 2 {
					lm.Params = append(lm.Params, LemmaParam{f[0], f[1]})
				} else if len(f) != 0 {
					return fmt.Errorf("%s:%d: bad lemma parameter %q", path, r.line, p)
				}
			}
			cs.Lemmas[pkgShort+"."+name] = lm
			curLemma = lm
			cur = nil
			curLoop = nil
		case "props":
			if cur != nil {
				cur.Props = append(cur.Props, strings.Fields(r.text)...)
			} else if curLemma != nil {
				curLemma.Props = append(curLemma.Props, strings.Fields(r.text)...)
			}
		case "hyp", "concl":
			if curLemma == nil {
				return fmt.Errorf("%s:%d: %s outside lemma", path, r.line, r.kw)
			}
			c, err := mkClause(r)
			if err != nil {
				return err
			}
			if r.kw == "hyp" {
				curLemma.Hyps = append(curLemma.Hyps, c)
			} else {
				curLemma.Concl = append(curLemma.Concl, c)
			}
		case "timeout":
			n, _ := strconv.Atoi(strings.TrimSpace(r.text))
			if cur != nil {
				cur.Timeout = n
			} else if curLemma != nil {
				curLemma.Timeout = n
			}
		case "requires", "ensures", "modifies", "assert":
			if cur == nil {
				return fmt.Errorf("%s:%d: %s outside func", path, r.line, r.kw)
			}
			if r.kw == "modifies" {
				var target *[]Clause = &cur.Modifies
				if curLoop != nil {
					target = &curLoop.Modifies
				} else {
					cur.HasMod = true
				}
				if strings.TrimSpace(r.text) == "nothing" || strings.TrimSpace(r.text) == "" {
					continue
				}
				for _, part := range splitTop(r.text, ',') {
					c, err := mkClause(rawClause{r.kw, part, r.line})
					if err != nil {
						return err
					}
					*target = append(*target, c)
				}
				continue
			}
			c, err := mkClause(r)
			if err != nil {
				return err
			}
			switch r.kw {
			case "requires":
				cur.Requires = append(cur.Requires, c)
			case "ensures":
				cur.Ensures = append(cur.Ensures, c)
			case "assert":
				cur.Asserts = append(cur.Asserts, c)
			}
		case "nopanic":
			cur.NoPanic = true
		case "exact-conversions":
			cur.ExactConv = true
		case "inline":
			cur.Inline = true
		case "bounded":
			cur.Bounded = r.text
		case "opaque":
			cur.Opaque = append(cur.Opaque, strings.Fields(r.text)...)
		case "trusted":
			cur.Trusted = r.text
			if cur.Trusted == "" {
				cur.Trusted = "trusted"
			}
			cs.Scan = append(cs.Scan, fmt.Sprintf("%s:%d: trusted %s: %s", filepath.Base(path), r.line, cur.Key, r.text))
		case "split":
			// split EXPR in LO..HI
			i := strings.LastIndex(r.text, " in ")
			if i < 0 {
				return fmt.Errorf("%s:%d: split EXPR in LO..HI", path, r.line)
			}
			rng := strings.Split(strings.TrimSpace(r.text[i+4:]), "..")
			if len(rng) != 2 {
				return fmt.Errorf("%s:%d: split EXPR in LO..HI", path, r.line)
			}
			lo, _ := strconv.ParseInt(rng[0], 0, 64)
			hi, _ := strconv.ParseInt(rng[1], 0, 64)
			c, err := mkClause(rawClause{"split", r.text[:i], r.line})
			if err != nil {
				return err
			}
			if cur != nil {
				cur.Splits = append(cur.Splits, Split{c, lo, hi})
			} else if curLemma != nil {
				curLemma.Splits = append(curLemma.Splits, Split{c, lo, hi})
			}
		case "use":
			// use lemma(args) [at entry|exit]
			txt := r.text
			at := "entry"
			if i := strings.LastIndex(txt, " at "); i >= 0 {
				at = strings.TrimSpace(txt[i+4:])
				txt = strings.TrimSpace(txt[:i])
			}
			e, err := parseExprSrc(txt)
			if err != nil {
				return fmt.Errorf("%s:%d: %v", path, r.line, err)
			}
			call, ok := e.(*ast.CallExpr)
			if !ok {
				return fmt.Errorf("%s:%d: use LEMMA(args)", path, r.line)
			}
			u := UseLemma{At: at}
			switch f := call.Fun.(type) {
			case *ast.Ident:
				u.Lemma = pkgShort + "." + f.Name
			case *ast.SelectorExpr:
				u.Lemma = f.X.(*ast.Ident).Name + "." + f.Sel.Name
			}
			for _, a := range call.Args {
				u.Args = append(u.Args, Clause{Expr: a, File: path, Line: r.line})
			}
			if cur == nil && curLemma != nil {
				curLemma.Uses = append(curLemma.Uses, u)
				break
			}
			if cur == nil {
				return fmt.Errorf("%s:%d: use outside func", path, r.line)
			}
			cur.Uses = append(cur.Uses, u)
		case "loop":
			// loop N: invariant expr | unroll k [assume] | modifies ...
			if cur == nil {
				return fmt.Errorf("%s:%d: loop outside func", path, r.line)
			}
			colon := strings.Index(r.text, ":")
			n, err := strconv.Atoi(strings.TrimSpace(r.text[:colon]))
			if err != nil {
				return fmt.Errorf("%s:%d: loop N: ...", path, r.line)
			}
			lc := cur.Loops[n]
			if lc == nil {
				lc = &LoopContract{}
				cur.Loops[n] = lc
			}
			rest := strings.TrimSpace(r.text[colon+1:])
			switch {
			case strings.HasPrefix(rest, "invariant"):
				c, err := mkClause(rawClause{"invariant", strings.TrimSpace(rest[len("invariant"):]), r.line})
				if err != nil {
					return err
				}
				lc.Invariants = append(lc.Invariants, c)
			case strings.HasPrefix(rest, "unroll"):
				f := strings.Fields(rest)
				lc.Unroll, _ = strconv.Atoi(f[1])
				if len(f) > 2 && f[2] == "assume" {
					lc.UnrollAssume = true
					cs.Scan = append(cs.Scan, fmt.Sprintf("%s:%d: %s loop %d unroll %d assume (bounded)", filepath.Base(path), r.line, cur.Key, n, lc.Unroll))
				}
			case strings.HasPrefix(rest, "modifies"):
				if strings.TrimSpace(rest[len("modifies"):]) == "nothing" {
					lc.ModNothing = true
					break
				}
				for _, part := range splitTop(strings.TrimSpace(rest[len("modifies"):]), ',') {
					c, err := mkClause(rawClause{"modifies", part, r.line})
					if err != nil {
						return err
					}
					lc.Modifies = append(lc.Modifies, c)
				}
			default:
				return fmt.Errorf("%s:%d: unknown loop clause %q", path, r.line, rest)
			}
			_ = curLoop
		}
	}
	return nil
}

func splitTop(s string, sep byte) []string {
	var out []string
	depth := 0
	start := 0
	for i := 0; i < len(s); i++ {
		switch s[i] {
		case '(', '[', '{':
			depth++
		case ')', ']', '}':
			depth--
		}
		if depth == 0 && s[i] == sep {
			out = append(out, strings.TrimSpace(s[start:i]))
			start = i + 1
		}
	}
	if t := strings.TrimSpace(s[start:]); t != "" {
		out = append(out, t)
	}
	return out
}

// normalizeFuncName turns "(*Board).addPiece" (written inside package board) into
// "(*board.Board).addPiece", "RookMoves" into "attacks.RookMoves", and leaves already qualified
// names ("chess.Clamp[int64]", "(*move.Store).Alloc") alone.
func normalizeFuncName(s, pkg string) string {
	s = strings.TrimSpace(s)
	if strings.HasPrefix(s, "(") {
		close := strings.Index(s, ")")
		recv := s[1:close]
		rest := s[close+1:]
		star := ""
		if strings.HasPrefix(recv, "*") {
			star = "*"
			recv = recv[1:]
		}
		if !strings.Contains(strings.SplitN(recv, "[", 2)[0], ".") {
			recv = pkg + "." + recv
		}
		return "(" + star + recv + ")" + rest
	}
	if !strings.Contains(strings.SplitN(s, "[", 2)[0], ".") {
		return pkg + "." + s
	}
	return s
}

func sortedKeys[V any](m map[string]V) []string {
	ks := make([]string, 0, len(m))
	for k := range m {
		ks = append(ks, k)
	}
	sort.Strings(ks)
	return ks
}

// mentionsIdent reports whether the identifier occurs in the expression.
func mentionsIdent(e ast.Expr, name string) bool {
	found := false
	ast.Inspect(e, func(n ast.Node) bool {
		if id, ok := n.(*ast.Ident); ok && id.Name == name {
			found = true
		}
		return !found
	})
	return found
}
