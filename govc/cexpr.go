package main

import (
	"fmt"
	"go/ast"
	"go/constant"
	"go/token"
	"go/types"
	"math/big"
	"strconv"
	"strings"

	"golang.org/x/tools/go/ssa"
)

type evalOpts struct {
	old    *State // function entry state (old())
	pre    *State // loop entry state (pre())
	result Value
	ghost  map[string]Value
	binds  []map[string]Value // macro parameter bindings (innermost last)
	noOld  bool
	pol    int // +1: the expression is a proof goal, -1: an assumption, 0: unknown polarity
}

func (o *evalOpts) lookupBind(name string) (Value, bool) {
	if o == nil {
		return nil, false
	}
	for i := len(o.binds) - 1; i >= 0; i-- {
		if v, ok := o.binds[i][name]; ok {
			return v, true
		}
	}
	return nil, false
}

func (x *Exec) evalBoolClause(fr *frame, st *State, c Clause, opts *evalOpts) (res T) {
	defer func() {
		if r := recover(); r != nil {
			if se, ok := r.(structureError); ok {
				panic(structureError{fmt.Sprintf("%s:%d: in `%s`: %s", c.File, c.Line, c.Src, se.msg)})
			}
			panic(r)
		}
	}()
	v := x.evalExpr(fr, st, c.Expr, opts)
	switch s := v.(type) {
	case Sc:
		if !s.IsBool() {
			bail("clause is not boolean")
		}
		return x.vc.def("cl", s.T)
	case Untyped:
		if b, ok := s.V.(bool); ok {
			if b {
				return tTrue
			}
			return tFalse
		}
	}
	bail("clause is not boolean (%T)", v)
	return tFalse
}

func (x *Exec) evalExpr(fr *frame, st *State, e ast.Expr, opts *evalOpts) Value {
	if opts == nil {
		opts = &evalOpts{}
	}
	switch n := e.(type) {
	case *ast.ParenExpr:
		return x.evalExpr(fr, st, n.X, opts)
	case *ast.BasicLit:
		switch n.Kind {
		case token.INT:
			bi, ok := new(big.Int).SetString(strings.ReplaceAll(n.Value, "_", ""), 0)
			if !ok {
				bail("bad integer literal %s", n.Value)
			}
			return Untyped{bi}
		case token.CHAR:
			r, _, _, err := strconv.UnquoteChar(n.Value[1:len(n.Value)-1], '\'')
			if err != nil {
				bail("bad char literal %s", n.Value)
			}
			return Untyped{big.NewInt(int64(r))}
		}
		bail("unsupported literal %s", n.Value)
	case *ast.Ident:
		return x.evalIdent(fr, st, n.Name, opts)
	case *ast.SelectorExpr:
		return x.evalSelector(fr, st, n, opts)
	case *ast.IndexExpr:
		base := x.evalExpr(fr, st, n.X, opts)
		idx := x.evalExpr(fr, st, n.Index, opts)
		return x.evalIndex(st, base, idx)
	case *ast.StarExpr:
		v := x.evalExpr(fr, st, n.X, opts)
		p, ok := v.(Ptr)
		if !ok {
			bail("* applied to %T", v)
		}
		return x.load(st, p)
	case *ast.UnaryExpr:
		if n.Op == token.AND {
			return x.evalLValue(fr, st, n.X, opts)
		}
		if n.Op == token.NOT {
			on := *opts
			on.pol = -opts.pol
			return Sc{T: mkNot(x.asBool(x.evalExpr(fr, st, n.X, &on)))}
		}
		v := x.evalExpr(fr, st, n.X, opts)
		switch n.Op {
		case token.NOT:
			return Sc{T: mkNot(x.asBool(v))}
		case token.SUB:
			if u, ok := v.(Untyped); ok {
				return Untyped{new(big.Int).Neg(u.V.(*big.Int))}
			}
			s := v.(Sc)
			return Sc{T: app("bvneg", s.Sort, s.T), Signed: s.Signed}
		case token.XOR:
			if u, ok := v.(Untyped); ok {
				return Untyped{new(big.Int).Not(u.V.(*big.Int))}
			}
			s := v.(Sc)
			return Sc{T: app("bvnot", s.Sort, s.T), Signed: s.Signed}
		case token.ADD:
			return v
		}
		bail("unsupported unary operator %s", n.Op)
	case *ast.BinaryExpr:
		return x.evalBinary(fr, st, n, opts)
	case *ast.CallExpr:
		return x.evalCall(fr, st, n, opts)
	}
	bail("unsupported contract expression %T", e)
	return nil
}

func (x *Exec) asBool(v Value) T {
	switch s := v.(type) {
	case Sc:
		if s.IsBool() {
			return s.T
		}
	case Untyped:
		if b, ok := s.V.(bool); ok {
			if b {
				return tTrue
			}
			return tFalse
		}
	}
	bail("expected boolean, got %T %v", v, v)
	return tFalse
}

func (x *Exec) evalIdent(fr *frame, st *State, name string, opts *evalOpts) Value {
	if v, ok := opts.lookupBind(name); ok {
		return v
	}
	if v, ok := opts.ghost[name]; ok {
		return v
	}
	switch name {
	case "true":
		return Untyped{true}
	case "false":
		return Untyped{false}
	case "nil":
		return Ptr{Nil: true}
	case "result", "result0":
		if opts.result == nil {
			bail("result used where no result is available")
		}
		if name == "result0" {
			if t, ok := opts.result.(Tup); ok {
				return t.Elems[0]
			}
		}
		return opts.result
	}
	if strings.HasPrefix(name, "result") {
		if k, err := strconv.Atoi(name[6:]); err == nil {
			t, ok := opts.result.(Tup)
			if !ok || k >= len(t.Elems) {
				bail("%s: no such result", name)
			}
			return t.Elems[k]
		}
	}
	// a variable that lives in a memory cell (address taken, named result with defers, ...) is read from
	// the cell: a remembered value would be stale after the cell is havocked at a loop head
	if p, ok := st.names["&"+name]; ok {
		if ptr, isP := p.(Ptr); isP {
			return x.load(st, ptr)
		}
	}
	if v, ok := st.names[name]; ok {
		return v
	}
	if g, ok := x.ghosts[name]; ok {
		return x.contents(st, g)
	}
	if m, ok := x.prog.contracts.Macros[name]; ok && len(m.Params) == 0 {
		return x.evalExpr(fr, st, m.Body, opts)
	}
	if sig, ok := x.prog.specSigs[name]; ok && len(sig.Params) == 0 {
		return Sc{T: T{name, sig.Ret}}
	}
	// package-level objects
	if v, ok := x.pkgObject(fr, st, name); ok {
		return v
	}
	bail("unknown identifier %q in contract of %s", name, fr.name)
	return nil
}

func (x *Exec) pkgObject(fr *frame, st *State, name string) (Value, bool) {
	var obj types.Object
	if fr.fn != nil && fr.fn.Pkg != nil {
		obj = x.prog.lookupInPackage(fr.fn.Pkg.Pkg, name)
	}
	if obj == nil {
		obj = x.prog.lookupAnywhere(name)
	}
	if obj == nil {
		return nil, false
	}
	return x.objectValue(st, obj)
}

func (x *Exec) objectValue(st *State, obj types.Object) (Value, bool) {
	switch o := obj.(type) {
	case *types.Const:
		if o.Val().Kind() == constant.Bool {
			return Untyped{constant.BoolVal(o.Val())}, true
		}
		if o.Val().Kind() == constant.Int {
			bi, ok := constant.Val(o.Val()).(*big.Int)
			if !ok {
				i64, _ := constant.Int64Val(o.Val())
				bi = big.NewInt(i64)
			}
			if sort, signed, ok := scalarSort(o.Type()); ok && sort != BoolSort {
				if b, isB := o.Type().Underlying().(*types.Basic); isB && b.Info()&types.IsUntyped != 0 {
					return Untyped{bi}, true
				}
				return Sc{T: litBig(sortWidth(sort), bi), Signed: signed}, true
			}
			return Untyped{bi}, true
		}
	case *types.Var:
		if g := x.prog.globalFor(o); g != nil {
			return x.contents(st, x.globalObject(g)), true
		}
	}
	return nil, false
}

func (x *Exec) evalSelector(fr *frame, st *State, n *ast.SelectorExpr, opts *evalOpts) Value {
	// package-qualified?
	if id, ok := n.X.(*ast.Ident); ok {
		if _, shadow := opts.lookupBind(id.Name); !shadow {
			if _, isName := st.names[id.Name]; !isName {
				if pkg := x.prog.packageByShortName(id.Name); pkg != nil {
					obj := pkg.Scope().Lookup(n.Sel.Name)
					if obj != nil {
						if v, ok := x.objectValue(st, obj); ok {
							return v
						}
					}
					bail("cannot use %s.%s in a contract", id.Name, n.Sel.Name)
				}
			}
		}
	}
	base := x.evalExpr(fr, st, n.X, opts)
	return x.fieldOf(st, base, n.Sel.Name)
}

func (x *Exec) fieldOf(st *State, base Value, name string) Value {
	if p, ok := base.(Ptr); ok {
		if p.Nil {
			bail("field %s of nil pointer", name)
		}
		base = x.load(st, p)
	}
	a, ok := base.(Agg)
	if !ok {
		bail("field %s of non-struct %T", name, base)
	}
	stt, ok := a.Typ.Underlying().(*types.Struct)
	if !ok {
		bail("field %s of non-struct type %s", name, a.Typ)
	}
	for i := 0; i < stt.NumFields(); i++ {
		if stt.Field(i).Name() == name {
			return a.Elems[i]
		}
	}
	// promoted through embedded structs
	for i := 0; i < stt.NumFields(); i++ {
		if stt.Field(i).Embedded() {
			if inner, ok := a.Elems[i].(Agg); ok {
				if _, isS := inner.Typ.Underlying().(*types.Struct); isS {
					return x.fieldOf(st, inner, name)
				}
			}
		}
	}
	bail("no field %s in %s", name, a.Typ)
	return nil
}

func (x *Exec) coerceIndex(idx Value) T {
	switch i := idx.(type) {
	case Untyped:
		return litBig(64, i.V.(*big.Int))
	case Sc:
		return resize(i.T, 64, i.Signed)
	}
	bail("bad index %T", idx)
	return T{}
}

func (x *Exec) evalIndex(st *State, base Value, idx Value) Value {
	ix := x.coerceIndex(idx)
	switch b := base.(type) {
	case Agg, Big:
		return x.readPath(b, []Sel{{Field: -1, Idx: ix}})
	case Slc:
		if b.Nil {
			bail("index into nil slice")
		}
		return x.load(st, Ptr{Obj: b.Obj, Path: append(append([]Sel(nil), b.Path...), Sel{Field: -1, Idx: bvbin("bvadd", b.Off, ix)})})
	case Ptr:
		return x.readPath(x.load(st, b), []Sel{{Field: -1, Idx: ix}})
	case Sc:
		// a value of an SMT array sort (lemma parameter or arr(...))
		es := ""
		switch {
		case b.Sort == "MvArr":
			es = bvSort(16)
		case b.Sort == "HashArr":
			es = bvSort(64)
		case strings.HasPrefix(b.Sort, "(Array (_ BitVec 64) "):
			es = arrayElemSort(b.Sort)
		}
		if es != "" {
			return Sc{T: T{"(select " + b.S + " " + ix.S + ")", es}}
		}
	}
	bail("cannot index %T", base)
	return nil
}

// evalLValue evaluates an addressable expression to a pointer.
func (x *Exec) evalLValue(fr *frame, st *State, e ast.Expr, opts *evalOpts) Ptr {
	switch n := e.(type) {
	case *ast.ParenExpr:
		return x.evalLValue(fr, st, n.X, opts)
	case *ast.Ident:
		if v, ok := opts.lookupBind(n.Name); ok {
			if p, isP := v.(Ptr); isP {
				return p
			}
		}
		if g, ok := x.ghosts[n.Name]; ok {
			return Ptr{Obj: g}
		}
		if p, ok := st.names["&"+n.Name]; ok {
			return p.(Ptr)
		}
		if v, ok := st.names[n.Name]; ok {
			if p, isP := v.(Ptr); isP {
				return p
			}
		}
		var obj types.Object
		if fr.fn != nil && fr.fn.Pkg != nil {
			obj = x.prog.lookupInPackage(fr.fn.Pkg.Pkg, n.Name)
		}
		if obj == nil {
			obj = x.prog.lookupAnywhere(n.Name)
		}
		if vv, ok := obj.(*types.Var); ok {
			if g := x.prog.globalFor(vv); g != nil {
				return Ptr{Obj: x.globalObject(g)}
			}
		}
		bail("%s is not addressable in a contract", n.Name)
	case *ast.StarExpr:
		v := x.evalExpr(fr, st, n.X, opts)
		if p, ok := v.(Ptr); ok {
			return p
		}
	case *ast.SelectorExpr:
		if id, ok := n.X.(*ast.Ident); ok {
			if _, isName := st.names[id.Name]; !isName {
				if _, shadow := opts.lookupBind(id.Name); !shadow {
					if pkg := x.prog.packageByShortName(id.Name); pkg != nil {
						if vv, ok := pkg.Scope().Lookup(n.Sel.Name).(*types.Var); ok {
							if g := x.prog.globalFor(vv); g != nil {
								return Ptr{Obj: x.globalObject(g)}
							}
						}
					}
				}
			}
		}
		var base Ptr
		bv := x.tryEval(fr, st, n.X, opts)
		if p, ok := bv.(Ptr); ok {
			base = p
		} else {
			base = x.evalLValue(fr, st, n.X, opts)
		}
		cur := x.load(st, base)
		// a pointer-typed field: follow it
		a, ok := cur.(Agg)
		if !ok {
			bail("selector on non-struct")
		}
		stt := a.Typ.Underlying().(*types.Struct)
		for i := 0; i < stt.NumFields(); i++ {
			if stt.Field(i).Name() == n.Sel.Name {
				return Ptr{Obj: base.Obj, Path: append(append([]Sel(nil), base.Path...), Sel{Field: i})}
			}
		}
		bail("no field %s", n.Sel.Name)
	case *ast.IndexExpr:
		idx := x.coerceIndex(x.evalExpr(fr, st, n.Index, opts))
		bv := x.tryEval(fr, st, n.X, opts)
		if s, ok := bv.(Slc); ok {
			return Ptr{Obj: s.Obj, Path: append(append([]Sel(nil), s.Path...), Sel{Field: -1, Idx: bvbin("bvadd", s.Off, idx)})}
		}
		base := x.evalLValue(fr, st, n.X, opts)
		return Ptr{Obj: base.Obj, Path: append(append([]Sel(nil), base.Path...), Sel{Field: -1, Idx: idx})}
	}
	bail("expression is not addressable in a contract")
	return Ptr{}
}

// tryEval evaluates e, returning nil on failure.
func (x *Exec) tryEval(fr *frame, st *State, e ast.Expr, opts *evalOpts) (v Value) {
	defer func() {
		if r := recover(); r != nil {
			if _, ok := r.(structureError); ok {
				v = nil
				return
			}
			panic(r)
		}
	}()
	return x.evalExpr(fr, st, e, opts)
}

func (x *Exec) coercePair(a, b Value) (Value, Value) {
	ua, isUa := a.(Untyped)
	ub, isUb := b.(Untyped)
	if isUa && !isUb {
		if sb, ok := b.(Sc); ok {
			return x.coerceTo(ua, sb.Sort, sb.Signed), b
		}
	}
	if isUb && !isUa {
		if sa, ok := a.(Sc); ok {
			return a, x.coerceTo(ub, sa.Sort, sa.Signed)
		}
	}
	return a, b
}

func (x *Exec) coerceTo(u Untyped, sort string, signed bool) Value {
	switch v := u.V.(type) {
	case bool:
		if sort != BoolSort {
			bail("boolean constant used as %s", sort)
		}
		if v {
			return Sc{T: tTrue}
		}
		return Sc{T: tFalse}
	case *big.Int:
		w := sortWidth(sort)
		if w == 0 {
			bail("integer constant used as %s", sort)
		}
		return Sc{T: litBig(w, v), Signed: signed}
	}
	bail("bad untyped constant")
	return nil
}

func (x *Exec) evalBinary(fr *frame, st *State, n *ast.BinaryExpr, opts *evalOpts) Value {
	switch n.Op {
	case token.LAND:
		return Sc{T: mkAnd(x.asBool(x.evalExpr(fr, st, n.X, opts)), x.asBool(x.evalExpr(fr, st, n.Y, opts)))}
	case token.LOR:
		return Sc{T: mkOr(x.asBool(x.evalExpr(fr, st, n.X, opts)), x.asBool(x.evalExpr(fr, st, n.Y, opts)))}
	}
	if opts.pol != 0 {
		oz := *opts
		oz.pol = 0
		opts = &oz
	}
	a := x.evalExpr(fr, st, n.X, opts)
	b := x.evalExpr(fr, st, n.Y, opts)
	ua, isUa := a.(Untyped)
	ub, isUb := b.(Untyped)
	if isUa && isUb {
		return x.foldUntyped(n.Op, ua, ub)
	}
	if n.Op == token.SHL || n.Op == token.SHR {
		if isUa {
			a = x.coerceTo(ua, bvSort(64), true)
		}
		if isUb {
			b = x.coerceTo(ub, bvSort(64), false)
		}
	} else {
		a, b = x.coercePair(a, b)
	}
	_, okA := a.(Sc)
	_, okB := b.(Sc)
	if !okA || !okB {
		if n.Op == token.EQL || n.Op == token.NEQ {
			oa, isOa := a.(Opq)
			ob, isOb := b.(Opq)
			pa0, isPa0 := a.(Ptr)
			pb0, isPb0 := b.(Ptr)
			var nilCond *T
			switch {
			case isOa && oa.NilC != nil && isPb0 && pb0.Nil:
				nilCond = oa.NilC
			case isOb && ob.NilC != nil && isPa0 && pa0.Nil:
				nilCond = ob.NilC
			}
			if nilCond != nil {
				r := *nilCond
				if n.Op == token.NEQ {
					r = mkNot(r)
				}
				return Sc{T: r}
			}
			if pa, isPa := a.(Ptr); isPa {
				if pb, isPb := b.(Ptr); isPb && !pa.Nil && !pb.Nil && pa.Obj != pb.Obj {
					// pointers into different objects are different
					r := mkAnd(pa.nilCond(), pb.nilCond())
					if n.Op == token.NEQ {
						r = mkNot(r)
					}
					return Sc{T: r}
				}
			}
			eq, ok := valueEq(a, b)
			if !ok {
				bail("== on values of different shape (%T, %T)", a, b)
			}
			if n.Op == token.NEQ {
				eq = mkNot(eq)
			}
			return Sc{T: eq}
		}
		bail("operator %s on %T, %T", n.Op, a, b)
	}
	sa, sb := a.(Sc), b.(Sc)
	if sa.W() == 0 && !sa.IsBool() {
		// opaque sorts (datatypes): only equality
		if n.Op == token.EQL {
			return Sc{T: mkEq(sa.T, sb.T)}
		}
		if n.Op == token.NEQ {
			return Sc{T: mkNot(mkEq(sa.T, sb.T))}
		}
		bail("operator %s on sort %s", n.Op, sa.Sort)
	}
	dummy := &frame{name: "contract"}
	saveNP := x.nopanic
	x.nopanic = false
	defer func() { x.nopanic = saveNP }()
	return x.binop(dummy, st, n.Op, sa, sb, nil, nil, nil)
}

func (x *Exec) foldUntyped(op token.Token, a, b Untyped) Value {
	if ba, ok := a.V.(bool); ok {
		bb := b.V.(bool)
		switch op {
		case token.EQL:
			return Untyped{ba == bb}
		case token.NEQ:
			return Untyped{ba != bb}
		}
		bail("operator %s on boolean constants", op)
	}
	ia, ib := a.V.(*big.Int), b.V.(*big.Int)
	r := new(big.Int)
	switch op {
	case token.ADD:
		return Untyped{r.Add(ia, ib)}
	case token.SUB:
		return Untyped{r.Sub(ia, ib)}
	case token.MUL:
		return Untyped{r.Mul(ia, ib)}
	case token.QUO:
		return Untyped{r.Quo(ia, ib)}
	case token.REM:
		return Untyped{r.Rem(ia, ib)}
	case token.AND:
		return Untyped{r.And(ia, ib)}
	case token.OR:
		return Untyped{r.Or(ia, ib)}
	case token.XOR:
		return Untyped{r.Xor(ia, ib)}
	case token.AND_NOT:
		return Untyped{r.AndNot(ia, ib)}
	case token.SHL:
		return Untyped{r.Lsh(ia, uint(ib.Uint64()))}
	case token.SHR:
		return Untyped{r.Rsh(ia, uint(ib.Uint64()))}
	case token.EQL:
		return Untyped{ia.Cmp(ib) == 0}
	case token.NEQ:
		return Untyped{ia.Cmp(ib) != 0}
	case token.LSS:
		return Untyped{ia.Cmp(ib) < 0}
	case token.LEQ:
		return Untyped{ia.Cmp(ib) <= 0}
	case token.GTR:
		return Untyped{ia.Cmp(ib) > 0}
	case token.GEQ:
		return Untyped{ia.Cmp(ib) >= 0}
	}
	bail("operator %s on constants", op)
	return nil
}

func (x *Exec) evalCall(fr *frame, st *State, n *ast.CallExpr, opts *evalOpts) Value {
	// method call or package function?
	if sel, ok := n.Fun.(*ast.SelectorExpr); ok {
		return x.evalSelectorCall(fr, st, n, sel, opts)
	}
	id, ok := n.Fun.(*ast.Ident)
	if !ok {
		if pe, isP := n.Fun.(*ast.ParenExpr); isP {
			_ = pe
		}
		bail("unsupported call form in contract")
	}
	name := id.Name
	arg := func(i int) Value { return x.evalExpr(fr, st, n.Args[i], opts) }
	switch name {
	case "old":
		if opts.old == nil {
			bail("old() used where no entry state is available")
		}
		o2 := *opts
		return x.evalExpr(fr, opts.old, n.Args[0], &o2)
	case "pre":
		if opts.pre == nil {
			bail("pre() used outside a loop invariant")
		}
		o2 := *opts
		return x.evalExpr(fr, opts.pre, n.Args[0], &o2)
	case "body":
		// force inlining of the Go function bodies (no contracts) while evaluating the argument
		save := x.forceInline
		x.forceInline = true
		defer func() { x.forceInline = save }()
		return x.evalExpr(fr, st, n.Args[0], opts)
	case "all", "any", "xorall", "orall":
		// all(i, lo, hi, body): finite expansion with i bound to the constants lo..hi
		id, ok := n.Args[0].(*ast.Ident)
		if !ok || len(n.Args) != 4 {
			bail("%s(i, lo, hi, body)", name)
		}
		lo := arg(1).(Untyped).V.(*big.Int).Int64()
		hi := arg(2).(Untyped).V.(*big.Int).Int64()
		var acc Value
		var bools []T
		for k := lo; k <= hi; k++ {
			o2 := *opts
			o2.binds = append(append([]map[string]Value(nil), opts.binds...), map[string]Value{id.Name: Untyped{big.NewInt(k)}})
			v := x.evalExpr(fr, st, n.Args[3], &o2)
			switch name {
			case "all", "any":
				bools = append(bools, x.asBool(v))
			default:
				sv, isSc := v.(Sc)
				if !isSc {
					bail("%s body must be a bit-vector", name)
				}
				sv = Sc{T: x.vc.def("f", sv.T), Signed: sv.Signed}
				if acc == nil {
					acc = sv
				} else {
					op := "bvxor"
					if name == "orall" {
						op = "bvor"
					}
					acc = Sc{T: bvbin(op, acc.(Sc).T, sv.T), Signed: sv.Signed}
				}
			}
		}
		switch name {
		case "all":
			return Sc{T: mkAnd(bools...)}
		case "any":
			return Sc{T: mkOr(bools...)}
		}
		return acc
	case "arr":
		// arr(s): the SMT array holding the elements of a slice of scalars (element i of s is arr(s)[off(s)+i])
		if bg0, isBig := arg(0).(Big); isBig {
			// a large fixed-size array of scalars: its SMT array
			leaf, ok := bg0.Elem.(Sc)
			if !ok {
				bail("arr(a): elements are not scalars")
			}
			return leaf
		}
		sl, ok := arg(0).(Slc)
		if !ok || sl.Nil {
			bail("arr(s): s must be a non-nil slice")
		}
		bg, ok := x.readPath(x.contents(st, sl.Obj), sl.Path).(Big)
		if !ok {
			bail("arr(s): not a large array")
		}
		leaf, ok := bg.Elem.(Sc)
		if !ok {
			bail("arr(s): elements are not scalars")
		}
		return leaf
	case "off":
		sl, ok := arg(0).(Slc)
		if !ok {
			bail("off(s): s must be a slice")
		}
		return Sc{T: sl.Off, Signed: true}
	case "bit":
		// bit(bb, i): bit i of bb; with a constant index this is an extract (keeps terms syntactically small)
		bbv := arg(0)
		iv := arg(1)
		bs, ok := bbv.(Sc)
		if !ok {
			bail("bit(bb, i): bb must be a bit-vector")
		}
		if u, isU := iv.(Untyped); isU {
			k := u.V.(*big.Int).Int64()
			return Sc{T: T{fmt.Sprintf("(= ((_ extract %d %d) %s) #b1)", k, k, bs.S), BoolSort}}
		}
		is := iv.(Sc)
		if c, isC := constVal(is.T); isC && int(c) < bs.W() {
			return Sc{T: T{fmt.Sprintf("(= ((_ extract %d %d) %s) #b1)", c, c, bs.S), BoolSort}}
		}
		// symbolic index: a case analysis over extracts, so that the term collapses to a single
		// extract once the index becomes known (shift-and-mask forms defeat the solvers' rewriters)
		bbn := x.vc.def("bb", bs.T)
		in := x.vc.def("bi", is.T)
		var alts []T
		for k := 0; k < bs.W(); k++ {
			alts = append(alts, mkAnd(mkEq(in, litBig(in.W(), big.NewInt(int64(k)))), T{fmt.Sprintf("(= ((_ extract %d %d) %s) #b1)", k, k, bbn.S), BoolSort}))
		}
		return Sc{T: mkOr(alts...)}
	case "count":
		// count(N): ghost counter of loop N - the number of iterations completed so far
		k := int(arg(0).(Untyped).V.(*big.Int).Int64())
		if v, ok := st.names[fmt.Sprintf("#count%d", k)]; ok {
			return v
		}
		bail("count(%d): not inside (or after) loop %d", k, k)
	case "iter":
		// iter(N): the hidden counter of range loop N of the current function
		k := int(arg(0).(Untyped).V.(*big.Int).Int64())
		for _, li := range fr.loops {
			if li.ordinal == k {
				for _, in := range li.header.Instrs {
					if phi, ok := in.(*ssa.Phi); ok && strings.HasPrefix(phi.Comment, "range") {
						if v, has := st.env[phi]; has {
							return v
						}
					}
				}
			}
		}
		bail("iter(%d): no range counter available here", k)
	case "implies":
		on := *opts
		on.pol = -opts.pol
		return Sc{T: mkImplies(x.asBool(x.evalExpr(fr, st, n.Args[0], &on)), x.asBool(arg(1)))}
	case "each":
		// each(i, lo, hi, body): universal quantification over lo..hi.  As a proof goal it is proved for
		// one arbitrary (fresh) i; anywhere else it is expanded into the finite conjunction.
		id, ok := n.Args[0].(*ast.Ident)
		if !ok || len(n.Args) != 4 {
			bail("each(i, lo, hi, body)")
		}
		lo := arg(1).(Untyped).V.(*big.Int).Int64()
		hi := arg(2).(Untyped).V.(*big.Int).Int64()
		if opts.pol > 0 {
			iv := Sc{T: x.vc.input("each."+id.Name, bvSort(64)), Signed: true}
			o2 := *opts
			o2.binds = append(append([]map[string]Value(nil), opts.binds...), map[string]Value{id.Name: iv})
			body := x.asBool(x.evalExpr(fr, st, n.Args[3], &o2))
			rng := mkAnd(bvcmp("bvsle", lit(64, uint64(lo)), iv.T), bvcmp("bvsle", iv.T, lit(64, uint64(hi))))
			return Sc{T: mkImplies(rng, body)}
		}
		var conj []T
		for k := lo; k <= hi; k++ {
			o2 := *opts
			o2.binds = append(append([]map[string]Value(nil), opts.binds...), map[string]Value{id.Name: Untyped{big.NewInt(k)}})
			conj = append(conj, x.asBool(x.evalExpr(fr, st, n.Args[3], &o2)))
		}
		return Sc{T: mkAnd(conj...)}
	case "forall":
		// forall(j, lo, hi, body): body holds for every j with lo <= j < hi (bounds may be symbolic).
		// As a proof goal it is proved for one arbitrary j; elsewhere it becomes an SMT quantifier.
		id, ok := n.Args[0].(*ast.Ident)
		if !ok || len(n.Args) != 4 {
			bail("forall(j, lo, hi, body)")
		}
		toI64 := func(v Value) T {
			switch a := v.(type) {
			case Untyped:
				return x.coerceTo(a, bvSort(64), true).(Sc).T
			case Sc:
				return resize(a.T, 64, a.Signed)
			}
			bail("forall bound of type %T", v)
			return T{}
		}
		lo, hi := toI64(arg(1)), toI64(arg(2))
		if opts.pol > 0 {
			iv := Sc{T: x.vc.input("forall."+id.Name, bvSort(64)), Signed: true}
			o2 := *opts
			o2.binds = append(append([]map[string]Value(nil), opts.binds...), map[string]Value{id.Name: iv})
			body := x.asBool(x.evalExpr(fr, st, n.Args[3], &o2))
			return Sc{T: mkImplies(mkAnd(bvcmp("bvsle", lo, iv.T), bvcmp("bvslt", iv.T, hi)), body)}
		}
		start := len(x.vc.decls)
		q := x.vc.fresh("q."+id.Name, bvSort(64))
		o2 := *opts
		o2.binds = append(append([]map[string]Value(nil), opts.binds...), map[string]Value{id.Name: Sc{T: q, Signed: true}})
		body := x.asBool(x.evalExpr(fr, st, n.Args[3], &o2))
		// definitions introduced while evaluating the body may mention the bound variable: inline them
		newDefs := map[string]string{}
		for _, d := range x.vc.decls[start+1:] {
			f := strings.Fields(d)
			if strings.HasPrefix(d, "(define-fun ") {
				newDefs[f[1]] = x.vc.bodies[f[1]]
			} else {
				bail("forall body introduces a fresh constant (%s): not expressible under a quantifier", f[1])
			}
		}
		bv := "qv_" + sanitize(q.S)
		txt := body.S
		for round := 0; round < 64; round++ {
			changed := false
			txt = replaceTokens(txt, func(tok string) (string, bool) {
				if b, ok := newDefs[tok]; ok {
					changed = true
					return b, true
				}
				return "", false
			})
			if !changed {
				break
			}
		}
		txt = replaceTokens(txt, func(tok string) (string, bool) {
			if tok == q.S {
				return bv, true
			}
			return "", false
		})
		loS := replaceTokens(lo.S, func(string) (string, bool) { return "", false })
		return Sc{T: T{fmt.Sprintf("(forall ((%s (_ BitVec 64))) (=> (and (bvsle %s %s) (bvslt %s %s)) %s))", bv, loS, bv, bv, hi.S, txt), BoolSort}}
	case "iff":
		oz := *opts
		oz.pol = 0
		return Sc{T: mkEq(x.asBool(x.evalExpr(fr, st, n.Args[0], &oz)), x.asBool(x.evalExpr(fr, st, n.Args[1], &oz)))}
	case "ite":
		c := x.asBool(arg(0))
		a, b := x.coercePair(arg(1), arg(2))
		if ua, ok := a.(Untyped); ok {
			a = x.coerceTo(ua, bvSort(64), true)
			b = x.coerceTo(b.(Untyped), bvSort(64), true)
		}
		m, ok := mergeValues(c, a, b)
		if !ok {
			bail("ite branches have different shapes")
		}
		return m
	case "b2i":
		return Sc{T: mkIte(x.asBool(arg(0)), lit(64, 1), lit(64, 0)), Signed: true}
	case "len", "cap":
		v := arg(0)
		switch s := v.(type) {
		case Slc:
			if name == "len" {
				return Sc{T: s.Len, Signed: true}
			}
			return Sc{T: s.Cap, Signed: true}
		case Agg:
			return Untyped{big.NewInt(int64(len(s.Elems)))}
		case Big:
			return Untyped{big.NewInt(s.N)}
		}
		bail("len of %T", v)
	case "min", "max":
		a, b := x.coercePair(arg(0), arg(1))
		sa, sb := a.(Sc), b.(Sc)
		var c T
		if name == "min" {
			c = bvcmp(pick(sa.Signed, "bvslt", "bvult"), sb.T, sa.T)
		} else {
			c = bvcmp(pick(sa.Signed, "bvsgt", "bvugt"), sb.T, sa.T)
		}
		return Sc{T: mkIte(c, sb.T, sa.T), Signed: sa.Signed}
	case "sext", "zext":
		// sext(x, w)
		w := int(arg(1).(Untyped).V.(*big.Int).Int64())
		s := arg(0).(Sc)
		return Sc{T: resize(s.T, w, name == "sext"), Signed: name == "sext"}
	case "signed":
		s := arg(0).(Sc)
		s.Signed = true
		return s
	case "unsigned":
		s := arg(0).(Sc)
		s.Signed = false
		return s
	}
	// macro
	if m, ok := x.prog.contracts.Macros[name]; ok {
		if len(m.Params) != len(n.Args) {
			bail("macro %s expects %d arguments", name, len(m.Params))
		}
		b := map[string]Value{}
		for i, p := range m.Params {
			b[p] = arg(i)
		}
		if x.isOpaque(name) {
			return x.opaqueApp(fr, st, m, b, opts)
		}
		o2 := *opts
		o2.binds = append(append([]map[string]Value(nil), opts.binds...), b)
		return x.evalExpr(fr, st, m.Body, &o2)
	}
	// spec function from the SMT prelude
	if sig, ok := x.prog.specSigs[name]; ok {
		if len(sig.Params) != len(n.Args) {
			bail("spec function %s expects %d arguments, got %d", name, len(sig.Params), len(n.Args))
		}
		var ts []T
		for i := range n.Args {
			v := arg(i)
			var t T
			switch a := v.(type) {
			case Untyped:
				t = x.coerceTo(a, sig.Params[i], false).(Sc).T
			case Sc:
				t = a.T
			default:
				bail("argument %d of %s is %T, expected scalar", i+1, name, v)
			}
			if t.Sort != sig.Params[i] {
				bail("argument %d of %s has sort %s, expected %s", i+1, name, t.Sort, sig.Params[i])
			}
			ts = append(ts, t)
		}
		x.prog.usedSpec[name] = true
		if len(ts) == 0 {
			return Sc{T: T{name, sig.Ret}}
		}
		return Sc{T: x.vc.def(name, app(name, sig.Ret, ts...))}
	}
	// type conversion
	if tn := x.lookupTypeName(fr, name); tn != nil {
		return x.convertTo(arg(0), tn.Type())
	}
	// Go function of the current package
	if fr.fn != nil && fr.fn.Pkg != nil {
		if f := fr.fn.Pkg.Func(name); f != nil {
			var args []Value
			for i := range n.Args {
				args = append(args, arg(i))
			}
			return x.callInContract(fr, st, f, args)
		}
	}
	if f := x.prog.funcAnywhere(name); f != nil {
		var args []Value
		for i := range n.Args {
			args = append(args, arg(i))
		}
		return x.callInContract(fr, st, f, args)
	}
	bail("unknown function %q in contract", name)
	return nil
}

func (x *Exec) lookupTypeName(fr *frame, name string) *types.TypeName {
	if obj := types.Universe.Lookup(name); obj != nil {
		if tn, ok := obj.(*types.TypeName); ok {
			return tn
		}
	}
	var obj types.Object
	if fr.fn != nil && fr.fn.Pkg != nil {
		obj = x.prog.lookupInPackage(fr.fn.Pkg.Pkg, name)
	}
	if obj == nil {
		obj = x.prog.lookupAnywhere(name)
	}
	if tn, ok := obj.(*types.TypeName); ok {
		return tn
	}
	return nil
}

func (x *Exec) convertTo(v Value, t types.Type) Value {
	sort, signed, ok := scalarSort(t)
	if !ok {
		bail("conversion to non-scalar type %s", t)
	}
	switch a := v.(type) {
	case Untyped:
		return x.coerceTo(a, sort, signed)
	case Sc:
		if sort == BoolSort || a.W() == 0 {
			return a
		}
		return Sc{T: resize(a.T, sortWidth(sort), a.Signed), Signed: signed}
	}
	bail("conversion of %T", v)
	return nil
}

func (x *Exec) evalSelectorCall(fr *frame, st *State, n *ast.CallExpr, sel *ast.SelectorExpr, opts *evalOpts) Value {
	var args []Value
	evalArgs := func() {
		for _, a := range n.Args {
			args = append(args, x.evalExpr(fr, st, a, opts))
		}
	}
	if id, ok := sel.X.(*ast.Ident); ok {
		_, isName := st.names[id.Name]
		_, shadow := opts.lookupBind(id.Name)
		if !isName && !shadow {
			if pkg := x.prog.packageByShortName(id.Name); pkg != nil {
				obj := pkg.Scope().Lookup(sel.Sel.Name)
				switch o := obj.(type) {
				case *types.TypeName:
					evalArgs()
					return x.convertTo(args[0], o.Type())
				case *types.Func:
					evalArgs()
					f := x.prog.ssaProg.FuncValue(o)
					if f == nil {
						bail("no SSA for %s", o.FullName())
					}
					return x.callInContract(fr, st, f, args)
				}
				bail("cannot call %s.%s in a contract", id.Name, sel.Sel.Name)
			}
		}
	}
	// method call on a value
	recv := x.evalExpr(fr, st, sel.X, opts)
	evalArgs()
	f := x.prog.methodFor(recv, sel.Sel.Name)
	if f == nil {
		bail("cannot resolve method %s on %T in contract", sel.Sel.Name, recv)
	}
	// receiver adjustment: value receiver given pointer
	if _, isPtrRecv := f.Signature.Recv().Type().(*types.Pointer); !isPtrRecv {
		if p, isP := recv.(Ptr); isP {
			recv = x.load(st, p)
		}
	}
	return x.callInContract(fr, st, f, append([]Value{recv}, args...))
}

// callInContract evaluates a Go function inside a contract expression: inlined when it has no
// specification, otherwise its result is a fresh value constrained by (requires => ensures).
func (x *Exec) callInContract(fr *frame, st *State, f *ssa.Function, args []Value) Value {
	// coerce untyped arguments
	for i, a := range args {
		if u, ok := a.(Untyped); ok {
			pt := f.Params[i].Type()
			sort, signed, ok2 := scalarSort(pt)
			if !ok2 {
				bail("untyped argument for non-scalar parameter")
			}
			args[i] = x.coerceTo(u, sort, signed)
		} else if s, ok := a.(Sc); ok {
			if sort, signed, ok2 := scalarSort(f.Params[i].Type()); ok2 && sort != s.Sort && s.W() > 0 && sortWidth(sort) > 0 {
				bail("argument %d of %s has sort %s, expected %s", i+1, f.Name(), s.Sort, sort)
			} else if ok2 {
				s.Signed = signed
				args[i] = s
			}
		}
	}
	name := shortFuncName(f)
	if r, ok := x.intrinsic(fr, st, name, args); ok {
		return r
	}
	fc := x.prog.contracts.Funcs[name]
	if fc == nil || !fc.HasSpec() {
		fc = x.prog.contracts.Externs[name]
	}
	if fc != nil && fc.HasSpec() && (!x.forceInline || fc.Abstract) {
		names := map[string]Value{}
		for i, p := range f.Params {
			names[p.Name()] = args[i]
		}
		cst := st.clone()
		cst.names = names
		cfr := &frame{fn: f, fc: fc, name: name}
		o := &evalOpts{old: &cst, ghost: map[string]Value{}}
		for _, g := range fc.Ghosts {
			o.ghost[g.Name] = x.evalExpr(cfr, &cst, g.Expr, o)
		}
		var pres []T
		for _, r := range fc.Requires {
			pres = append(pres, x.evalBoolClause(cfr, &cst, r, o))
		}
		var res Value
		sig := f.Signature
		if sig.Results().Len() == 1 {
			res = x.freshResult(sig.Results().At(0).Type(), "s_"+f.Name())
		} else {
			tp := Tup{}
			for k := 0; k < sig.Results().Len(); k++ {
				tp.Elems = append(tp.Elems, x.freshResult(sig.Results().At(k).Type(), "s_"+f.Name()))
			}
			res = tp
		}
		o.result = res
		var posts []T
		for _, e := range fc.Ensures {
			posts = append(posts, x.evalBoolClause(cfr, &cst, e, o))
		}
		x.vc.assume(mkImplies(mkAnd(pres...), mkAnd(posts...)), "specification of "+name+" used in a contract expression")
		return res
	}
	saveNP := x.nopanic
	x.nopanic = false
	s2 := st.clone()
	s2.reach = tTrue
	_, res, ok := x.runFunc(f, args, nil, s2, false)
	x.nopanic = saveNP
	if !ok {
		bail("function %s used in contract never returns", f.Name())
	}
	return res
}

func rootIdent(e ast.Expr) string {
	for {
		switch n := e.(type) {
		case *ast.Ident:
			return n.Name
		case *ast.SelectorExpr:
			e = n.X
		case *ast.IndexExpr:
			e = n.X
		case *ast.StarExpr:
			e = n.X
		case *ast.ParenExpr:
			e = n.X
		default:
			return ""
		}
	}
}

func (x *Exec) isOpaque(name string) bool {
	if x.fc == nil {
		return false
	}
	for _, o := range x.fc.Opaque {
		if o == name {
			return true
		}
	}
	return false
}

// opaqueApp renders a macro application as an uninterpreted function of the scalar leaves of its
// arguments (the body is evaluated once, in a scratch context, only to learn the result sort).
func (x *Exec) opaqueApp(fr *frame, st *State, m *Macro, b map[string]Value, opts *evalOpts) Value {
	var args []T
	for _, p := range m.Params {
		v := b[p]
		if u, ok := v.(Untyped); ok {
			v = x.coerceTo(u, bvSort(64), true)
		}
		leaves(v, p, func(path string, s Sc) { args = append(args, s.T) })
	}
	uf := "uf." + m.Name
	info, ok := x.ufs[uf]
	if !ok {
		// learn the sort from a throw-away evaluation
		// (evaluated once in the unit's own context only to learn the result sort; the definitions it
		// leaves behind are unused)
		saveFc := x.fc
		x.fc = nil
		o2 := *opts
		o2.binds = append(append([]map[string]Value(nil), opts.binds...), b)
		res := x.evalExpr(fr, st, m.Body, &o2)
		x.fc = saveFc
		rs, isSc := res.(Sc)
		if !isSc {
			bail("opaque macro %s must be scalar", m.Name)
		}
		var sorts []string
		for _, a := range args {
			sorts = append(sorts, a.Sort)
		}
		x.vc.decls = append(x.vc.decls, fmt.Sprintf("(declare-fun %s (%s) %s)", uf, strings.Join(sorts, " "), rs.Sort))
		info = ufInfo{rs.Sort, rs.Signed, len(args)}
		if x.ufs == nil {
			x.ufs = map[string]ufInfo{}
		}
		x.ufs[uf] = info
	}
	if info.n != len(args) {
		bail("opaque macro %s applied to arguments of a different shape", m.Name)
	}
	// memo through control-flow merges: the last application is remembered in the state together
	// with its argument leaves; both are merged alike at joins, so an application to syntactically
	// the same (merged) leaves is the (merged) remembered value -- plain congruence, made syntactic.
	if x.trackObj == nil {
		x.trackObj = map[string]*Object{}
	}
	tobj := x.trackObj[uf]
	if tobj == nil {
		tobj = x.newObject("track:"+m.Name, "track", nil)
		x.trackObj[uf] = tobj
	}
	if cur, ok := st.mem[tobj].(Tup); ok && len(cur.Elems) == len(args)+1 {
		same := true
		for i, a := range args {
			if cur.Elems[i+1].(Sc).S != a.S {
				same = false
				break
			}
		}
		if same {
			return cur.Elems[0]
		}
	}
	res := Sc{T: x.vc.def(m.Name, app(uf, info.sort, args...)), Signed: info.signed}
	tv := Tup{Elems: []Value{res}}
	for _, a := range args {
		tv.Elems = append(tv.Elems, Sc{T: a})
	}
	st.mem[tobj] = tv
	return res
}

type ufInfo struct {
	sort   string
	signed bool
	n      int
}

// evalGoalClause evaluates a clause that is about to become a proof goal (positive polarity).
func (x *Exec) evalGoalClause(fr *frame, st *State, c Clause, opts *evalOpts) T {
	o := evalOpts{}
	if opts != nil {
		o = *opts
	}
	o.pol = 1
	return x.evalBoolClause(fr, st, c, &o)
}

// replaceTokens maps the symbol tokens of an SMT-LIB term (delimited by blanks and parentheses).
func replaceTokens(t string, f func(tok string) (string, bool)) string {
	var sb strings.Builder
	i := 0
	for i < len(t) {
		c := t[i]
		if c == '(' || c == ')' || c == ' ' || c == '\n' || c == '\t' {
			sb.WriteByte(c)
			i++
			continue
		}
		j := i
		for j < len(t) && t[j] != '(' && t[j] != ')' && t[j] != ' ' && t[j] != '\n' && t[j] != '\t' {
			j++
		}
		tok := t[i:j]
		if r, ok := f(tok); ok {
			sb.WriteString(r)
		} else {
			sb.WriteString(tok)
		}
		i = j
	}
	return sb.String()
}
