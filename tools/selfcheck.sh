#!/bin/bash
# setup-time sanity: the contract mirror equals the contract files in /repo (when present)
cd /repo || exit 1
rc=0
for f in $(git ls-files -co --exclude-standard | grep 'contracts_verif.go$'); do
  d=$(dirname "$f"); [ "$d" = "." ] && d=root
  m="/verif/contracts/$(echo "$d" | tr / _).go"
  if ! cmp -s "$f" "$m"; then echo "selfcheck: $f differs from mirror $m" >&2; rc=1; fi
done
exit $rc
