#!/bin/bash
# tools/try_patch_wt.sh <patch.diff> <PROP> [extra govc flags]: apply a patch in a scratch worktree of /repo
# HEAD (outside /repo and /verif), run the quick check of PROP against that tree, remove the worktree.
# Does not touch /repo, so it can run while other checks use /repo.
set -u
patch="$1"; prop="$2"; shift 2
export GOFLAGS=-mod=mod GOPROXY=off
wt=/tmp/wt_try_$$
git -C /repo worktree add -q --detach "$wt" HEAD || exit 2
( cd "$wt" && git apply "$patch" ) || { echo "patch does not apply"; git -C /repo worktree remove --force "$wt"; exit 2; }
cd /verif
if [ "$prop" = "C20" ]; then
  M=/tmp/wt_try_mod_$$; mkdir -p "$M"
  printf 'module verif/tunerload\n\ngo 1.25.4\n\nrequire (\n\tgithub.com/paulsonkoly/chess-3 v0.0.0\n\tgithub.com/paulsonkoly/chess-3/tools/tuner v0.0.0\n)\n\nreplace github.com/paulsonkoly/chess-3 => %s\n\nreplace github.com/paulsonkoly/chess-3/tools/tuner => %s/tools/tuner\n' "$wt" "$wt" > "$M/go.mod"
  cat "$wt/go.sum" "$wt/tools/tuner/go.sum" | sort -u > "$M/go.sum"
  printf 'package main\n\nimport (\n\t_ "github.com/paulsonkoly/chess-3/tools/tuner/epd"\n\t_ "github.com/paulsonkoly/chess-3/tools/tuner/tuning"\n)\n\nfunc main() {}\n' > "$M/main.go"
  bin/govc check --prop "$prop" --repo "$wt" --no-evidence --load-dir "$M" --patterns "github.com/paulsonkoly/chess-3/tools/tuner/epd,github.com/paulsonkoly/chess-3/tools/tuner/tuning" "$@" 2>&1 | grep -E "^(VIOLATION|KNOWN|govc|FAILED)" | cut -c1-260
  rm -rf "$M"
else
  bin/govc check --prop "$prop" --repo "$wt" --no-evidence "$@" 2>&1 | grep -E "^(VIOLATION|KNOWN|govc|FAILED)" | cut -c1-260
fi
git -C /repo worktree remove --force "$wt"; git -C /repo worktree prune
