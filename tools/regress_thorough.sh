#!/bin/bash
# Runs the thorough check of every claimed property; prints one line per property.
cd /verif
ids=$(python3 -c "import json;print(' '.join(c['property_id'] for c in json.load(open('MANIFEST.json'))['checks']))")
[ $# -gt 0 ] && ids="$@"
rc=0
for id in $ids; do
  s=$(date +%s); out=$(./check $id --tier thorough 2>&1); code=$?; e=$(date +%s)
  echo "$id exit=$code $((e-s))s $(echo "$out" | tail -1)"
  [ $code -ne 0 ] && { rc=1; echo "$out" | grep -E "^(FAILED|VIOLATION|ENGINE)" | head -5; }
done
exit $rc
