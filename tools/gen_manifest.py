#!/usr/bin/env python3
"""Generates /verif/MANIFEST.json from the table below (kept in one place so the file stays valid)."""
import json, subprocess

TECH = "contract-based deductive verification: weakest-precondition VCs generated over go/ssa of the working tree, discharged by z3/cvc5"

CLAIMED = {
 "C12": dict(
   text="Proof for all 64 squares and all 2^64 occupancies: calcRook/BishopAttacks equal the coordinate ray walk (loops unrolled 7 with unwinding assertions); the magic tables are proved filled by the package initialiser (loop invariants over the carry-rippler subset enumeration, pointwise in an arbitrary (square, occupancy)), using per-square no-destructive-collision and mask-irrelevance lemmas over the constant tables of the working tree, hence RookMoves/BishopMoves == ray walk for every occupancy; king/knight tables and pawn shift formulas equal the set-wise geometric definitions, which are linked to the coordinate definitions by lemmas; initInBetween is proved to fill InBetween[a][b] (ends disregarded) with exactly the squares strictly between aligned squares and nothing otherwise (4 nested loop invariants, inner walk unrolled). A mechanical SSA scan shows the tables have no other writers.",
   note="Trusted: coordinate definitions in spec/geom.smt2 (walkDir, kingAtt, knightAtt, pawnAtt, between); Go runs init before use. Termination of the init loops is not proved.",
   ref="DESIGN.md section 5 C12"),
 "C14": dict(
   text="Proof for all 2^64 values of every clock field and both colours: timedMode/softLimit/hardLimit are verified against contracts stating the property's clauses (positive, within remaining time, margin kept, move time respected) and a two-copy lemma shows the results depend only on the mover's own clock and the move time. Bit-vector semantics, so int64 overflow of 4*soft is covered.",
   note="Assumes go/ssa faithfulness and solver soundness. The goroutine in handleGo that passes hardLimit to time.NewTimer is not verified (concurrency is outside the technique); only the three functions that compute the budget are.",
   ref="DESIGN.md section 5 C14"),
 "C15": dict(
   text="Proof, for every table length 1..2^32, every 64-bit key, every bucket content and every generation byte: match64/bucketIx/LookUp/Insert/Clear/Value are verified against an abstract bucket view (tt.smt2): Insert equals the abstract store on the key's bucket and leaves all other buckets untouched, LookUp hits iff a lane carries the signature and returns the lowest such lane, Clear empties every bucket (loop invariant). The history clauses (a hit returns the latest store for that bucket+signature with the latest non-null move, at most one other key evicted, probe-after-store, bound suppression, mate re-basing round trip, packing) are lemmas over the abstract store, proved for all inputs.",
   note="Resize/New use unsafe and are not verified (table shape 1 <= len(data) <= 2^32 is a precondition); depths/plies 0..63, bound type <= 2 and |score| <= 10001 are preconditions of Insert as in the property; the composition of single-step lemmas over arbitrary operation sequences is the usual induction carried by the invariant recAgrees/wfBkt.",
   ref="DESIGN.md section 5 C15"),
}


NOT_APPLICABLE = {
 "C13": "Quantifies over interleavings of goroutines, channels, timers and a WaitGroup; a sequential contract verifier cannot express or decide schedules (DESIGN.md section 5 C13).",
 "C19": "Compares a float64 instantiation with an int16 one up to a numeric envelope and depends on reflect-driven flattening; floating point sums and reflection are outside the VC generator's subset (DESIGN.md section 5 C19).",
}
PENDING = "not yet brought under contract by the verifier in this revision (work in progress, see DESIGN.md section 10)"
ALL = ["C%02d" % i for i in range(1, 21)]

checks = []
for pid in ALL:
    if pid not in CLAIMED: continue
    c = CLAIMED[pid]
    checks.append(dict(
        property_id=pid,
        quick_cmd="./check %s --tier quick" % pid,
        thorough_cmd="./check %s --tier thorough" % pid,
        evidence_file="/verif/evidence/%s.json" % pid,
        replay_cmd_template="cat {path}",
        engine="govc",
        level_claimed=dict(category="proof", text=c["text"], design_ref=c["ref"]),
        level_note=c["note"],
        technique=TECH))
na = []
for pid in ALL:
    if pid in CLAIMED: continue
    na.append(dict(property_id=pid, reason=NOT_APPLICABLE.get(pid, PENDING)))

hook_commits = subprocess.run(["git", "-C", "/repo", "log", "--format=%H %s", "--", "*/contracts_verif.go", "contracts_verif.go"],
                              capture_output=True, text=True).stdout.strip().splitlines()
man = dict(
    version=1,
    setup_cmd="cd /verif/govc && GOFLAGS=-mod=mod GOPROXY=off go build -o /verif/bin/govc . && cd /verif && tools/selfcheck.sh",
    hooks=dict(guard="verif", enable="go build -tags verif (contract files /repo/<pkg>/contracts_verif.go are comment-only; govc loads the packages with -tags=verif)",
               baseline_off_cmd="cd /repo && GOFLAGS=-mod=mod GOPROXY=off go test -vet=off -count=1 ./...",
               source_commits=[l.split()[0] for l in hook_commits], add_only=True),
    engines=[dict(name="govc", path="/verif/govc", serves_properties=sorted(CLAIMED),
                  kind_free_text="verification-condition generator over go/ssa (bit-vector semantics, contracts in //@ comment files, loops cut by invariants or unrolled with unwinding assertions) + z3 5.1 / z3 4.8 / cvc5 raced per obligation; counterexamples replayed on the real code via go test -overlay")],
    checks=checks,
    not_applicable=na,
    notes="See DESIGN.md. Known findings: /verif/known_findings.json. Seeded mutations: /verif/seeded.")
json.dump(man, open("/verif/MANIFEST.json", "w"), indent=1)
print("claimed:", sorted(CLAIMED), "n/a:", len(na))
