#!/usr/bin/env python3
"""Generates /verif/MANIFEST.json from the table below (kept in one place so the file stays valid)."""
import json, subprocess

TECH = "contract-based deductive verification: weakest-precondition VCs generated over go/ssa of the working tree, discharged by z3/cvc5"

CLAIMED = {
 "C01": dict(
   text="Proof with a pointwise ghost counter: for an arbitrary fixed 16-bit encoding gm, each of the 13 generator functions raises the count of Alloc(gm) calls by exactly one iff gm lies in the slice of the rules it is responsible for (loop invariants over the bit-iteration loops, promotion loops unrolled), GenNoisy and GenNotNoisy sum their callees, and lemma slicesArePseudo shows the 18 slices add up to exactly [pseudo(pos, gm)] for every valid position: every pseudo-legal move is generated exactly once and nothing else. Scenario legalityFilter shows that MakeMove followed by InCheck(mover) is false iff the move is legal in the rule specification (the filter used by perft and the search).",
   note="Alloc's ghost effect is the definition of the counter (trusted); the move store's capacity is not modelled. Positions reached by play are covered through the universally quantified valid position; the lemma that legal moves preserve validity (measured 556 s unsplit during design) is not re-run in this revision. debug.perft itself is not under contract (its loop over the frame is the consumer pattern only).",
   ref="DESIGN.md section 5 C01"),
 "C16": dict(
   text="Proof of the history-band clause: History.Add, Continuation.Add and CaptHist.Add keep an arbitrary cell within [-1024, 1024] for every int16 bonus (gravity lemma over the exact clamp/abs/multiply/divide formula, 64-bit intermediate), the Clear functions zero every cell, LookUp returns the addressed cell, RankQuiet (a sum of at most three cells) stays within [-3072, 3072] and RankNoisy lies in one of the two capture bands [7168, 7377] / [-8192, -7983], all strictly above the sentinel -16384. Proof of the picker's per-call contract (picker.Next, all four loops by invariants, the store as an unbounded array): under the picker invariant (frame shape; every pending entry equal to the hash move carries the sentinel weight, every other pending entry a weight >= -8192) one call of Next re-establishes the invariant, yields (result true) exactly one more entry whose weight is above the sentinel - never a marked duplicate - and not smaller than any entry still pending, yields the hash move first iff it is pseudo-legal in the rule specification, never changes an already yielded entry or a lower frame, and answers false only when nothing but marked duplicates of the hash move is pending.",
   note="The generators and rankers are used by the picker through views: GenNoisy/GenNotNoisy as append-only (justified by a mechanical scan that every store in their call tree happens inside move.Store.Alloc, which the picker executes in place; store capacity assumed), RankNoisy/RankQuiet by their proved bands. Not mechanised: the composition over a whole iteration (exactly once = C01's exactly-once generation + the per-call contract + a multiset argument over the selection swaps), heur.init's layout assertion. Clauses over the arbitrary store index gi are schemas and are additionally instantiated at the first pending entry (`instances`).",
   ref="DESIGN.md section 5 C16 and section 11"),
 "C02": dict(
   text="Proof by contracts on MakeMove, CanEnPassant, IsAttacked/InCheck and the attack tables (C12), for a fully symbolic board and move: quick tier discharges side to move, castling rights (NewCastles vs the rule), halfmove clock, fullmove number, hash-history push and the e.p. field (target recorded iff a legal e.p. capture exists: CanEnPassant == existsLegalEP of the rule spec, 16 colour x file cases; this obligation found defect F1, repaired). The piece-placement clause (all six piece sets and both colour sets equal the rule successor) is discharged in the quick tier as well (about 20 s with the bit-blasting racer). The halfmove clock obligation over mathematical integers fails exactly for clock 127 (int8 wrap): known finding F4.",
   note="MakeMove is verified under the local precondition `movable` + `lightPos`; lemma movableFromPseudo shows every pseudo-legal move of a valid position satisfies it. Not covered: uci.applyMoves/parseUCIMove (string handling) are not under contract, so the `position ... moves` path relies on C05's gate only; chains of moves follow by induction over the single-step contract (validity preservation lemma not mechanised in this revision).",
   ref="DESIGN.md section 5 C02"),
 "C03": dict(
   text="Null move: MakeNullMove followed by UndoNullMove restores every field and the whole hash history (scenario executed symbolically on both real bodies). Real move: the scenario MakeMove;UndoMove on a symbolic board and any movable move (superset of pseudo-legal, incl. moves that leave the king in check, castling, promotions, en passant) restores placement (six piece sets, two colour sets, the per-square piece map), side, e.p. target, rights, both counters and the hash history entry by entry; both real bodies are executed in sequence with add/removePiece inlined, split into 42 cases by moving and captured piece, each discharged in about 2 s (quick tier). The undo token's pack/unpack round trip is a separate scenario.",
   note="In the make/undo scenario CanEnPassant and Hash are used through frame-only views (their values are immaterial for the round trip; frames proved in their main contracts). Nesting to arbitrary depth follows from the single-step round trip by induction (not mechanised). The Reverse token is whatever MakeMove produced (no separate token contract). The scenario's end-reachability probe needs about 140 s and is decided in the thorough tier only.",
   ref="DESIGN.md section 5 C03 and section 11"),
 "C04": dict(
   text="Proof: addPiece/removePiece preserve the representation invariant (piece map == piece sets == colour sets) and change the placement fold by exactly the returned key (1792 split cases over square x colour x piece); calculateHash equals the specification hash zhash (loop invariant over the bit loop + fold lemmas), ResetHash installs it; MakeNullMove keeps hash == zhash; MakeMove keeps hash == zhash and the representation invariant (thorough tier: 60 s and 170 s; quick tier checks all its call preconditions, the placement clause and the cheaper clauses). zhash is a function of placement, side, rights and e.p. file only, which gives the transposition clause.",
   note="The Zobrist tables are arbitrary (uninterpreted) so the proof holds for any table contents. UndoMove's hash pop is covered by C03's scenario. The fold over 64 squares is kept opaque in callers (memoised through control-flow merges).",
   ref="DESIGN.md section 5 C04"),
 "C05": dict(
   text="Proof: for every board satisfying the representation invariant and validity and every one of the 2^15 encodings (symbolic 16-bit move), IsPseudoLegal(m) == pseudo(pos, m) of the rule specification, using the attack-table contracts of C12 and IsAttacked's contract. The check found defect F2 (promotion bits ignored), repaired by a fix: commit.",
   note="The generator side (every generator emits exactly the pseudo set) is C01; the picker/UCI gates that call IsPseudoLegal are not yet under contract.",
   ref="DESIGN.md section 5 C05"),
 "C06": dict(
   text="Proof of the sequential clauses for every abort point: alphaBeta, quiescence and iterativeDeepen are verified (recursion through their own contracts, move loops by invariants) to leave every scalar attribute of the board and the hash history exactly as they found them on every path - including aborts (each poll of the stop channel is a nondeterministic choice), illegal moves, null-move pruning, goto Fin, pruning breaks and the abort fallback loop - and to leave the history stack and the move-store frame stack balanced, so the same instance can be searched again; the abort flag is sticky. Make/undo pairs are used through abstract views whose only assumed fact is the round trip proved under C03.",
   note="Not claimed in this revision: legality of the returned move and the final-root clauses (they need the PV contracts of C07 and the picker's exhaustiveness), the UCI `go` numeric path (handleGo mixes argument parsing with goroutines and closures and could not be brought inside the subset; the int8 narrowing of `go depth N` for N >= 128, which returns bestmove 0000 on a non-final root, was confirmed by hand and is described in DESIGN.md section 6 as an observation outside what the checks decide), and the spsa build. Views of callees (picker.Next, tt.LookUp/Insert, eval, ranker) are frame-only and listed as trusted; termination is not proved.",
   ref="DESIGN.md section 5 C06"),
 "C08": dict(
   text="Proof of the budget clause and of the no-store-after-abort mechanism: incrementNodes never takes the node counter past a non-negative hard budget and is the only writer of it in the search package (frame of every other function under contract excludes it except through incrementNodes' callers, whose contracts carry the same bound), so a hard budget of N nodes is never exceeded along alphaBeta/quiescence recursion; in alphaBeta the fail-high store (tt.Insert) and the history update (FailHigh) that consume child results are reached only with the abort flag clear, for every arrival time of the stop signal.",
   note="Not decided by this technique (stated in DESIGN.md): run-to-run reproducibility and soft-limit/hard-budget equivalence are two-run hyperproperties of the whole engine state. Observation recorded in DESIGN.md: the two final stores of alphaBeta can be reached with the abort flag set after an aborted null-move search when no move is playable (the stored value does not depend on the aborted child).",
   ref="DESIGN.md section 5 C08"),
 "C09": dict(
   text="Proof for every valid, e.p.-normalised position: IsStalemate (king not in check) and IsCheckmate (king in check) are each shown sound (result true implies that an arbitrary fixed 16-bit move is not legal in the rule specification: loop invariants over the per-piece bit loops carrying 'no move from a processed square is legal', the general chess lemma singleCheckReplies - in single check a legal non-king move captures the checker or interposes, in double check only the king moves - and stepping-stone assertions) and complete (every `return false` names a concrete legal witness move: 12 return sites in IsStalemate, 4 in IsCheckmate). Attackers and Block are proved equal to set-valued specification functions (attackersTo, blockSet). Quick tier: IsStalemate soundness, Attackers, Block and all lemmas; thorough tier adds IsStalemate's witnesses and the whole of IsCheckmate (about 20 min). IsCheckmate's soundness obligation fails exactly when an en-passant capture could interpose on the check line: known finding F6 (input class carved out, every other input proved).",
   note="Validity is the property's own quantifier (validPos + epNormal); F6 positions satisfy it but cannot arise in play. Callers (search.quiescence) reach these functions through frame-only views. Heavy obligations take 100-950 s of solver time in the thorough tier.",
   ref="DESIGN.md section 5 C09"),
 "C10": dict(
   text="Proof of the counting clause: Threefold returns min(3, 1 + number of earlier history entries at distances 4, 6, 8, ... equal to the current hash) for histories of any length (loop invariant against an inductively specified count); ResetHash leaves a one-entry history; MakeMove/MakeNullMove push exactly one entry and keep earlier entries (history clauses).",
   note="Equality of hashes stands for equality of positions modulo Zobrist collisions (probabilistic, cannot be proved). That positions cannot recur at distance 2 and that entries at odd distances have the other side to move are not mechanised in this revision. axioms occUnfold/occRange are the inductive definition of the count (trusted).",
   ref="DESIGN.md section 5 C10"),
 "C11": dict(
   text="Proof of the robustness clause: every FEN field parser (position, stm, cRights, enPassant, fifty, fullMoves, counter) and the sequencing function seq are panic-free (index, shift, map and conversion safety) for an arbitrary byte slice of arbitrary length and any cursor position allowed by their preconditions, and keep the cursor non-negative and the cached length equal to the slice length (loop invariants; seq calls the parsers through function values under a callback contract that the parsers' own contracts discharge). Proof of the gate clause: InvalidPieceCount returns false for every material distribution reachable by promotion (population counts abstracted to values in [0,64]).",
   note="Not decided (stated in DESIGN.md): the print/parse round-trip clauses need sequence reasoning over strings.Builder/strconv/fmt output, which is outside the subset; uci.handlePosition (that a rejected position never replaces the current one) is string-handling code not under contract in this revision. That ParseFEN passes position first to seq is by inspection of its single call.",
   ref="DESIGN.md section 5 C11"),
 "C12": dict(
   text="Proof for all 64 squares and all 2^64 occupancies: calcRook/BishopAttacks equal the coordinate ray walk (loops unrolled 7 with unwinding assertions); the magic tables are proved filled by the package initialiser (loop invariants over the carry-rippler subset enumeration, pointwise in an arbitrary (square, occupancy)), using per-square no-destructive-collision and mask-irrelevance lemmas over the constant tables of the working tree, hence RookMoves/BishopMoves == ray walk for every occupancy; king/knight tables and pawn shift formulas equal the set-wise geometric definitions, which are linked to the coordinate definitions by lemmas; initInBetween is proved to fill InBetween[a][b] (ends disregarded) with exactly the squares strictly between aligned squares and nothing otherwise (4 nested loop invariants, inner walk unrolled). A mechanical SSA scan shows the tables have no other writers.",
   note="Trusted: coordinate definitions in spec/geom.smt2 (walkDir, kingAtt, knightAtt, pawnAtt, between); Go runs init before use. Termination of the init loops is not proved.",
   ref="DESIGN.md section 5 C12"),
 "C17": dict(
   text="The position-only clause is decided mechanically over the SSA of every function reachable from Eval: the only fields of the board read anywhere in the call tree are the piece sets, the colour sets, the side to move and the halfmove clock, and no store reaches memory outside the evaluation's own locals (so castling rights, e.p. state, move number, hash history and earlier evaluations cannot influence the result). The colour-symmetry clause is proved at helper level: KNBvK, frontFill, Chebishev, the pawn attack/push formulas and the slider/leaper geometry compute for the mirror image (ranks flipped, colours exchanged) the mirror of what they compute for the original (two-copy lemmas over the real bodies).",
   note="Not proved in this revision: symmetry of the whole of Eval (the per-piece loops and the per-colour accumulation would need functional loop contracts and a permutation-of-sums lemma), insufficientMat's symmetry (population-count arithmetic did not discharge within the timeout and is left out), table index safety. The read/write-set scan is a conservative static analysis of go/ssa, not an SMT obligation.",
   ref="DESIGN.md section 5 C17"),
 "C18": dict(
   text="Safety part only: SEE is proved panic-free (all table and array indices, shifts) and write-free for every board whose piece map holds piece codes, every 15-bit move whose promotion field is a piece code and every threshold, with the loop invariant that the side index stays 0/1, the result bit stays 0/1, the per-side attacker cursors stay in pawn..bishop and the occupancy only ever loses squares.",
   note="NOT decided in this revision: the equivalence of the answer with the capture-sequence minimax and monotonicity in the threshold (the designed bounded unrolling against a minimax specification was not built). The two seeded C18 mutations (x-ray mask, late e.p. occupancy) are therefore not detected.",
   ref="DESIGN.md section 5 C18"),
 "C20": dict(
   text="Proof of the arithmetic core for all inputs: the Feistel network maps [0, 2^bits) into itself and is injective on it for every width 1..64 and any round function (two-copy lemma over the real body with the round function uninterpreted), shuffleIndex returns a value below n (0 for n <= 1) by cycle walking; the iterator bodies of Batches and Chunks hand consecutive, non-empty, in-range ranges to yield whose cursors advance by exactly one step (callback contract), i.e. they tile the index range resp. the batch; the line manifest built by NewChunker records, for every line returned by the reader, exactly its physical extent in the file, blank lines included (ghost file position, assumed contract of bufio.Reader.ReadSlice). The last obligation found defect F5, repaired by a fix: commit. Chunker.Open is proved to collect, for the window [start, end) of an epoch, exactly manifest[si(start)], manifest[si(start+1)], ... where si names the value of shuffleIndex (loop invariant with a ghost index, index safety from the proved range), and Chunk.Read is proved to return exactly the bytes of the current manifest line of a ghost file (without the newline), to refill its buffer window when the line is not wholly inside it, to keep the window invariant and to advance by one line (assumed contract of os.File.ReadAt).",
   note="Assumed (documented library behaviour): bufio.Reader.ReadSlice, os.Open, os.File.ReadAt, slices.SortFunc. I/O errors other than end of file are not modelled; after a failed ReadAt the window invariant is not promised (the buffer was overwritten, mapStart/mapEnd still describe the old window - a caller must stop on error, as the tuner does). slices.SortFunc is assumed to permute. Not mechanised: the composition of 'result is the first iterate below n' with the Lean cycle-walking lemma (spec/lean/Walk.lean) into the permutation statement.",
   ref="DESIGN.md section 5 C20"),
 "C14": dict(
   text="Proof for all 2^64 values of every clock field and both colours: timedMode/softLimit/hardLimit are verified against contracts stating the property's clauses (positive, within remaining time, margin kept, move time respected) and a two-copy lemma shows the results depend only on the mover's own clock and the move time. Bit-vector semantics, so int64 overflow of 4*soft is covered.",
   note="Assumes go/ssa faithfulness and solver soundness. The goroutine in handleGo that passes hardLimit to time.NewTimer is not verified (concurrency is outside the technique); only the three functions that compute the budget are.",
   ref="DESIGN.md section 5 C14"),
 "C15": dict(
   text="Proof, for every table length 1..2^32, every 64-bit key, every bucket content and every generation byte: match64/bucketIx/LookUp/Insert/Clear/Value are verified against an abstract bucket view (tt.smt2): Insert equals the abstract store on the key's bucket and leaves all other buckets untouched, LookUp hits iff a lane carries the signature and returns the lowest such lane, Clear empties every bucket (loop invariant). The history clauses (a hit returns the latest store for that bucket+signature with the latest non-null move, at most one other key evicted, probe-after-store, bound suppression, mate re-basing round trip, packing) are lemmas over the abstract store, proved for all inputs.",
   note="Resize/New use unsafe and are not verified (table shape 1 <= len(data) <= 2^32 is a precondition); depths/plies 0..63, bound type <= 2 and |score| <= 10001 are preconditions of Insert as in the property; the composition of single-step lemmas over arbitrary operation sequences is the usual induction carried by the invariant recAgrees/wfBkt.",
   ref="DESIGN.md section 5 C15"),
}


NOT_APPLICABLE = {
 "C13": "Quantifies over interleavings of goroutines, channels, timers and a WaitGroup; a sequential contract verifier cannot express or decide schedules (DESIGN.md section 5 C13).",
 "C19": "Compares a float64 instantiation with an int16 one up to a numeric envelope and depends on reflect-driven flattening; floating point sums and reflection are outside the VC generator's subset (DESIGN.md section 5 C19).",
}
PENDING = "not yet brought under contract by the verifier in this revision (work in progress, see DESIGN.md section 10)"
ALL = ["C%02d" % i for i in range(1, 21)]

checks = []
for pid in ALL:
    if pid not in CLAIMED: continue
    c = CLAIMED[pid]
    checks.append(dict(
        property_id=pid,
        quick_cmd="./check %s --tier quick" % pid,
        thorough_cmd="./check %s --tier thorough" % pid,
        evidence_file="/verif/evidence/%s.json" % pid,
        replay_cmd_template="cat {path}",
        engine="govc",
        level_claimed=dict(category="proof", text=c["text"], design_ref=c["ref"]),
        level_note=c["note"],
        technique=TECH))
na = []
for pid in ALL:
    if pid in CLAIMED: continue
    na.append(dict(property_id=pid, reason=NOT_APPLICABLE.get(pid, PENDING)))

hook_commits = subprocess.run(["git", "-C", "/repo", "log", "--format=%H %s", "--", "*/contracts_verif.go", "contracts_verif.go"],
                              capture_output=True, text=True).stdout.strip().splitlines()
man = dict(
    version=1,
    setup_cmd="cd /verif/govc && GOFLAGS=-mod=mod GOPROXY=off go build -o /verif/bin/govc . && cd /verif && tools/selfcheck.sh",
    hooks=dict(guard="verif", enable="go build -tags verif (contract files /repo/<pkg>/contracts_verif.go are comment-only; govc loads the packages with -tags=verif)",
               baseline_off_cmd="cd /repo && GOFLAGS=-mod=mod GOPROXY=off go test -vet=off -count=1 ./...",
               source_commits=[l.split()[0] for l in hook_commits], add_only=True),
    engines=[dict(name="govc", path="/verif/govc", serves_properties=sorted(CLAIMED),
                  kind_free_text="verification-condition generator over go/ssa (bit-vector semantics, contracts in //@ comment files, loops cut by invariants or unrolled with unwinding assertions) + z3 5.1 / z3 4.8 / cvc5 raced per obligation; counterexamples replayed on the real code via go test -overlay")],
    checks=checks,
    not_applicable=na,
    notes="See DESIGN.md. Known findings: /verif/known_findings.json. Seeded mutations: /verif/seeded.")
json.dump(man, open("/verif/MANIFEST.json", "w"), indent=1)
print("claimed:", sorted(CLAIMED), "n/a:", len(na))
