#!/bin/bash
# tools/try_seed.sh <seeded-dir> <PROP> [more props]: apply the patch to /repo, run the checks, undo it.
# (undo by reverse-applying the patch, so uncommitted contract edits in /repo survive)
d="$1"; shift
git -C /repo apply "/verif/seeded/$d/patch.diff" || exit 2
for p in "$@"; do /verif/check "$p" --no-evidence 2>&1 | grep -E "^(VIOLATION|KNOWN|govc|FAILED)" | cut -c1-300; done
git -C /repo apply -R "/verif/seeded/$d/patch.diff"
