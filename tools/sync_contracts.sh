#!/bin/bash
# Mirror the contract files of /repo into /verif/contracts (byte-identical copies).
# The canonical text is the file in /repo; govc falls back to the mirror only when a package's
# contract file is absent from the working tree.
set -e
cd /repo
for f in $(git ls-files -co --exclude-standard | grep 'contracts_verif.go$'); do
  d=$(dirname "$f"); [ "$d" = "." ] && d=root
  cp "$f" "/verif/contracts/$(echo "$d" | tr / _).go"
done
ls /verif/contracts
