#!/bin/bash
# Lists, per property, the quick-tier obligations that needed more than 30 s (headroom check against the
# per-unit time limits).  Development aid.
cd /verif
ids=$(python3 -c "import json;print(' '.join(c['property_id'] for c in json.load(open('MANIFEST.json'))['checks']))")
[ $# -gt 0 ] && ids="$@"
for id in $ids; do
  ./check $id --no-evidence -v 2>&1 | grep "^ok" | sed 's/.* \([0-9.]*\)s$/\1 &/' | awk -v id=$id '$1+0 > 30 {print id, $0}' | cut -c1-170
done
