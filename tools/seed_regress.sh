#!/bin/bash
# Re-applies every stored seeded change whose meta.json names a quick-tier detecting check and
# confirms the check still reports a violation.  One line per seed.
cd /verif
for d in seeded/*/; do
  id=$(basename $d)
  det=$(python3 -c "import json;print(json.load(open('$d/meta.json')).get('detected_by',''))")
  prop=$(echo "$det" | grep -oE "^C[0-9]+ quick" | cut -d' ' -f1)
  if [ -z "$prop" ]; then echo "$id skip ($det)" | cut -c1-120; continue; fi
  git -C /repo apply "/verif/$d/patch.diff" 2>/dev/null || { echo "$id PATCH-DOES-NOT-APPLY"; continue; }
  out=$(./check $prop --no-evidence --fail-fast 2>&1); code=$?
  git -C /repo apply -R "/verif/$d/patch.diff"
  n=$(echo "$out" | grep -c "^VIOLATION")
  echo "$id $prop exit=$code violations=$n $(echo "$out" | grep "^VIOLATION" | head -1 | grep -o "obligation=.*" | cut -c1-120)"
done
git -C /repo status --short | head -3
