#!/bin/bash
# tools/confirm_seed.sh <seed-name>: confirms a seeded mutation in a scratch worktree of /repo HEAD:
#   1. the patch applies, the code builds and the whole existing test suite passes with it
#   2. the demonstration fails with the patch
#   3. the demonstration passes without the patch
# Writes seeded/<name>/confirm.log and prints one summary line.  The worktree is removed afterwards.
n="$1"; d=/verif/seeded/$n; wt=/tmp/seedchk/$n
export GOFLAGS=-mod=mod GOPROXY=off
mkdir -p /tmp/seedchk; rm -rf "$wt"; git -C /repo worktree prune
git -C /repo worktree add --detach "$wt" HEAD >/dev/null 2>&1 || { echo "$n worktree-failed"; exit 2; }
log=$d/confirm.log; : > $log
cd "$wt"
if ! git apply "$d/patch.diff" >>$log 2>&1; then echo "$n patch-does-not-apply" | tee -a $log; cd /; git -C /repo worktree remove --force "$wt"; exit 1; fi
suite=ok
(go build ./... && go test -vet=off -count=1 ./...) >>$log 2>&1 || suite=FAIL
# place the demonstration by its package clause
demo_pkgs=""
for f in $d/*_test.go; do
  [ -f "$f" ] || continue
  pkg=$(grep -m1 '^package ' "$f" | awk '{print $2}' | sed 's/_test$//')
  case "$pkg" in
    epd) dir=tools/tuner/epd;; tuning) dir=tools/tuner/tuning;; *) dir=$pkg;;
  esac
  cp "$f" "$wt/$dir/zz_seed_$(basename $f)"
  demo_pkgs="$demo_pkgs $dir"
done
run_demo() {
  rc=0
  for dir in $(echo $demo_pkgs | tr ' ' '\n' | sort -u); do
    case "$dir" in
      tools/tuner/*) (cd tools/tuner && go test -vet=off -count=1 -timeout 20m ./${dir#tools/tuner/}/) >>$log 2>&1 || rc=1;;
      *) go test -vet=off -count=1 -timeout 20m ./$dir/ >>$log 2>&1 || rc=1;;
    esac
  done
  return $rc
}
echo "---- demo with patch" >>$log
with=pass; run_demo || with=FAIL
git apply -R "$d/patch.diff" >>$log 2>&1
echo "---- demo without patch" >>$log
without=pass; run_demo || without=FAIL
cd /; git -C /repo worktree remove --force "$wt" >/dev/null 2>&1
verdict=REJECTED
[ "$suite" = ok ] && [ "$with" = FAIL ] && [ "$without" = pass ] && verdict=CONFIRMED
echo "$n suite_with_patch=$suite demo_with_patch=$with demo_without_patch=$without => $verdict" | tee -a $log
